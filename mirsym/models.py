"""Hand-written semantics of the core/alloc functions that /repo's MIR calls.

These are the only non-MIR semantics in engine A; they are validated
differentially against the native build on every run (see explore.py) and by
the self-test (`./check selftest`).
"""
import re
import z3

from parse import Unsupported
from values import *
from interp import FnRef, PyFn, ExtFn, normalize

WS_ASCII = (9, 10, 11, 12, 13, 32)


# =====================================================================  iterators
class CharsIt:
    def __init__(s, st, indices):
        s.st = st
        s.i = st.b.idx[st.s]
        s.j = st.b.idx[st.e]
        s.indices = indices

    def next(s, I):
        if s.i >= s.j:
            return NONE()
        cp, nb = s.st.b.chars[s.i]
        off = s.st.b.off[s.i] - s.st.s
        s.i += 1
        return Some(Agg('()', [off, cp])) if s.indices else Some(cp)

    def next_back(s, I):
        if s.i >= s.j:
            return NONE()
        s.j -= 1
        cp, nb = s.st.b.chars[s.j]
        off = s.st.b.off[s.j] - s.st.s
        return Some(Agg('()', [off, cp])) if s.indices else Some(cp)

    def rest(s):
        b = s.st.b
        return Str(b, b.off[s.i], b.off[s.j])


class FromFn:
    def __init__(s, clo):
        s.clo = clo

    def next(s, I):
        return I.call_closure(Ptr([s.clo], 0), [])


class MapIt:
    def __init__(s, inner, clo):
        s.inner = inner
        s.clo = clo

    def next(s, I):
        r = I.iter_next(s.inner)
        if r.v == 0:
            return r
        return Some(I.call_closure(Ptr([s.clo], 0), [r.f[0]]))


class ListIt:
    """by-value iterator over a list (vec::IntoIter)"""

    def __init__(s, items):
        s.items = list(items)
        s.i = 0
        s.j = len(s.items)

    def next(s, I):
        if s.i >= s.j:
            return NONE()
        v = s.items[s.i]
        s.i += 1
        return Some(v)

    def next_back(s, I):
        if s.i >= s.j:
            return NONE()
        s.j -= 1
        return Some(s.items[s.j])


class RefIt:
    """slice::Iter: yields references into a list"""

    def __init__(s, l, a, b):
        s.l = l
        s.i = a
        s.b = b

    def next(s, I):
        if s.i >= s.b:
            return NONE()
        v = s.l[s.i]
        p = v if isinstance(v, (Str, Slice)) and False else Ptr(s.l, s.i)
        s.i += 1
        return Some(p)


class EnumIt:
    def __init__(s, inner):
        s.inner = inner
        s.n = 0

    def next(s, I):
        r = I.iter_next(s.inner)
        if r.v == 0:
            return r
        s.n += 1
        return Some(Agg('()', [s.n - 1, r.f[0]]))


class ZipIt:
    def __init__(s, a, b):
        s.a = a
        s.b = b

    def next(s, I):
        x = I.iter_next(s.a)
        if x.v == 0:
            return x
        y = I.iter_next(s.b)
        if y.v == 0:
            return y
        return Some(Agg('()', [x.f[0], y.f[0]]))


class FlatMapIt:
    def __init__(s, inner, clo):
        s.inner = inner
        s.clo = clo
        s.cur = None

    def next(s, I):
        while True:
            if s.cur is not None:
                r = I.iter_next(s.cur)
                if r.v == 1:
                    return r
                s.cur = None
            r = I.iter_next(s.inner)
            if r.v == 0:
                return r
            s.cur = I.call_closure(Ptr([s.clo], 0), [r.f[0]])


class FilterIt:
    def __init__(s, inner, clo):
        s.inner = inner
        s.clo = clo

    def next(s, I):
        while True:
            r = I.iter_next(s.inner)
            if r.v == 0:
                return r
            if I.branch(I.call_closure(Ptr([s.clo], 0), [Ptr(r.f, 0)])):
                return r


class PredPat:
    """single-character pattern given as a predicate"""

    def __init__(s, pr):
        s.pr = pr


class SplitIt:
    """str::split(pat) / split_terminator(pat);  pat = list of code points"""

    def __init__(s, st, pat, terminator=False, inclusive=False):
        s.inclusive = inclusive
        s.st = st
        s.pat = pat
        s.cs = st.chars()
        s.i = 0
        s.start = st.s
        s.done = False
        s.terminator = terminator

    def next(s, I):
        if s.done:
            return NONE()
        b = s.st.b
        k = len(s.pat)
        base = b.idx[s.st.s]
        while s.i + k <= len(s.cs):
            hit = True
            for t in range(k):
                pt = s.pat[t]
                cond = pt.pr(s.cs[s.i + t][0]) if isinstance(pt, PredPat) else v_eq(s.cs[s.i + t][0], pt)
                if not I.branch(cond):
                    hit = False
                    break
            if hit:
                o = b.off[base + s.i]
                s.i += k
                nxt = b.off[base + s.i]
                r = Str(b, s.start, nxt if s.inclusive else o)
                s.start = nxt
                return Some(r)
            s.i += 1
        s.done = True
        if s.terminator and s.start == s.st.e:
            return NONE()
        return Some(Str(b, s.start, s.st.e))


class LinesIt:
    """str::lines(): split_inclusive('\\n'), strip one trailing "\\n" and then one trailing "\\r" """

    def __init__(s, st):
        s.st = st
        s.cs = st.chars()
        s.i = 0
        s.start = st.s

    def next(s, I):
        b = s.st.b
        if s.start >= s.st.e:
            return NONE()
        base = b.idx[s.st.s]
        while s.i < len(s.cs):
            cp = s.cs[s.i][0]
            s.i += 1
            if I.branch(v_eq(cp, 10)):
                end = b.off[base + s.i - 1]
                nxt = b.off[base + s.i]
                line = Str(b, s.start, end)
                s.start = nxt
                lc = line.chars()
                if lc and I.branch(v_eq(lc[-1][0], 13)):
                    line = Str(b, line.s, line.e - lc[-1][1])
                return Some(line)
        line = Str(b, s.start, s.st.e)
        s.start = s.st.e
        return Some(line)


class MatchIdx:
    def __init__(s, st, ch):
        s.st = st
        s.cs = st.chars()
        s.i = 0
        s.off = 0
        s.ch = ch

    def next(s, I):
        while s.i < len(s.cs):
            cp, nb = s.cs[s.i]
            off = s.off
            s.i += 1
            s.off += nb
            if I.branch(v_eq(cp, s.ch)):
                return Some(Agg('()', [off, Str(s.st.b, s.st.s + off, s.st.s + off + nb)]))
        return NONE()


# =====================================================================  tables
class Tables:
    """range tables extracted from the real implementations by the native runner"""

    def __init__(s, native_full, native_nd=None):
        s.t = {}
        s._tmpl = {}
        s._inst = {}
        s._X = z3.BitVec('X!tmpl', 32)
        for name in ('whitespace', 'alphanumeric', 'width'):
            st, r = native_full.call('table ' + name)
            if st != 'OK':
                raise Unsupported('table extraction failed: ' + name)
            s.t[name] = [(int(a, 16), int(b, 16), int(v)) for a, b, v in
                         (re.match(r'([0-9a-f]+)-([0-9a-f]+)=(-?\d+)', e).groups() for e in r.split())]

    def ranges(s, name, val, lo=0, hi=0x10FFFF):
        return [(max(a, lo), min(b, hi)) for a, b, v in s.t[name] if v == val and b >= lo and a <= hi]

    def values(s, name, lo=0, hi=0x10FFFF):
        return sorted({v for a, b, v in s.t[name] if b >= lo and a <= hi and v != -9})

    def lookup(s, name, cp):
        for a, b, v in s.t[name]:
            if a <= cp <= b:
                return v
        raise KeyError(cp)

    def pred(s, name, val, cp, lo=0, hi=0x10FFFF):
        """membership predicate of a symbolic code point; built once per (table, value, class) over a placeholder
        and instantiated by substitution (z3py term construction is the expensive part)"""
        key = (name, val, lo, hi)
        tm = s._tmpl.get(key)
        if tm is None:
            tm = s._build(name, val, s._X, lo, hi)
            s._tmpl[key] = tm
        if isinstance(tm, bool):
            return tm
        k2 = (key, cp.get_id())
        hit = s._inst.get(k2)
        if hit is not None:
            return hit[1]
        r = z3.substitute(tm, (s._X, cp))
        s._inst[k2] = (cp, r)
        return r

    def width_term(s, cp, lo, hi, floor0=False):
        """column width as a nested ite over the extracted table (values < 0 mean `None`; floor0 maps them to 0)"""
        key = ('widthterm', floor0, lo, hi)
        tm = s._tmpl.get(key)
        if tm is None:
            vals = [v for v in s.values('width', lo, hi) if floor0 or v >= 0]
            vals.sort(key=lambda v: len(s.ranges('width', v, lo, hi)))
            if len(vals) == 1:
                tm = max(vals[0], 0)
            else:
                e = z3.IntVal(max(vals[-1], 0))
                for v in reversed(vals[:-1]):
                    e = z3.If(s._build('width', v, s._X, lo, hi), z3.IntVal(max(v, 0)), e)
                tm = e
            s._tmpl[key] = tm
        if isinstance(tm, int):
            return tm
        k2 = (key, cp.get_id())
        hit = s._inst.get(k2)
        if hit is not None:
            return hit[1]
        r = z3.substitute(tm, (s._X, cp))
        s._inst[k2] = (cp, r)
        return r

    def _build(s, name, val, cp, lo, hi):
        rs = s.ranges(name, val, lo, hi)
        terms = []
        for a, b in rs:
            if a == b:
                terms.append(cp == a)
            elif a <= lo and b >= hi:
                return True
            elif a <= lo:
                terms.append(z3.ULE(cp, b))
            elif b >= hi:
                terms.append(z3.UGE(cp, a))
            else:
                terms.append(z3.And(z3.UGE(cp, a), z3.ULE(cp, b)))
        return v_or(*terms)


# =====================================================================  helpers
def as_str(v):
    v = deref(v)
    if isinstance(v, Str):
        return v
    if isinstance(v, OString):
        return v.as_str()
    if isinstance(v, Enum) and v.ty == 'Cow':
        return as_str(v.f[0])
    if isinstance(v, Agg) and v.name == 'Word':
        return v.f[0]
    raise Unsupported('as_str(%r)' % (type(v).__name__,))


def as_list(v):
    v = deref(v)
    if isinstance(v, RVec):
        return v.l, 0, len(v.l)
    if isinstance(v, Slice):
        return v.l, v.a, v.b
    if isinstance(v, Agg) and v.name == '[]':
        return v.f, 0, len(v.f)
    raise Unsupported('as_list(%r)' % (type(v).__name__,))


def conc(I, v, what):
    """a value that sizes a structure (count, index, split position): a symbolic one is made concrete by forking over
    0..I.int_enum_limit (stated bound); paths above the limit are cut and counted, not claimed"""
    if is_sym(v):
        if z3.is_int(v):
            return I.enumerate_int(v, what)
        raise Unsupported('symbolic %s' % what)
    return v


def range_bounds(r, n):
    r = deref(r)
    nm = r.name
    if nm.endswith('RangeFrom'):
        return r.f[0], n
    if nm.endswith('RangeTo'):
        return 0, r.f[0]
    if nm.endswith('RangeFull'):
        return 0, n
    if nm.endswith('RangeInclusive'):
        return r.f[0], r.f[1] + 1
    return r.f[0], r.f[1]


def cp_class(I, cp):
    """(lo, hi) scalar range a symbolic code point is known to lie in"""
    if is_sym(cp):
        return I.cp_range.get(cp.get_id(), (0, 0x10FFFF))
    return (cp, cp)


# =====================================================================  the model table
class Models:
    def __init__(self, tables, native=None):
        self.tables = tables
        self.native = native
        self.exact = {}
        self.patterns = []
        self.as_list = as_list
        self._install()

    def reg(self, names, fn):
        for n in names.split('|'):
            self.exact[normalize(n.strip())] = fn

    def pat(self, regex, fn):
        self.patterns.append((re.compile(regex), fn))

    def lookup_suffix(self, n):
        """a free std function called through a `use` import is printed by its short path (`successors::<..>`,
        `mem::take::<..>`): match registered `std::a::b` names by unambiguous path suffix (tried only after the
        crate's own items)"""
        if not hasattr(self, '_suffix'):
            idx = {}
            for name, fn in self.exact.items():
                if name.startswith(('std::', 'core::', 'alloc::')) and '<' not in name:
                    parts = name.split('::')
                    for k in range(1, len(parts)):
                        idx.setdefault('::'.join(parts[k:]), set()).add(fn)
            self._suffix = {k: next(iter(v)) for k, v in idx.items() if len(v) == 1}
        return self._suffix.get(n)

    def lookup(self, I, callee, n):
        h = self.exact.get(n)
        if h is not None:
            return h
        for rx, fn in self.patterns:
            m = rx.match(n)
            if m:
                return fn
        return None

    # ------------------------------------------------------------------
    def _install(self):
        reg = self.reg
        pat = self.pat
        T = self.tables

        # ---------------- str
        reg('core::str::<impl str>::chars', lambda I, s: CharsIt(as_str(s), False))
        reg('core::str::<impl str>::char_indices', lambda I, s: CharsIt(as_str(s), True))
        reg('core::str::<impl str>::len|String::len', lambda I, s: as_str(s).len())
        reg('core::str::<impl str>::is_empty|String::is_empty', lambda I, s: as_str(s).len() == 0)

        def str_index(I, s, r):
            s = as_str(s)
            a, b = range_bounds(r, s.len())
            a = conc(I, a, 'str index')
            b = conc(I, b, 'str index')
            return s.sub(a, b)
        pat(r'^<(str|String) as Index<(std::ops::)?Range\w*<usize>>>::index$', str_index)

        def as_bytes(I, s):
            s = as_str(s)
            out = []
            for ch in s.chars():
                cp, nb = ch
                if nb == 1:
                    out.append(cp)
                else:
                    out.extend(MByte(ch, k, nb) for k in range(nb))
            return Slice(out, 0, len(out))
        reg('core::str::<impl str>::as_bytes', as_bytes)

        def charpred(I, pat):
            """a `Pattern` argument that matches single characters (char, &[char] / [char; N], closure or fn item
            taking a char) -> predicate on a code point; None for string patterns"""
            d = pat if isinstance(pat, (int,)) or is_sym(pat) else deref(pat)
            if isinstance(d, int) or (is_sym(d) and z3.is_bv(d)):
                return lambda cp: v_eq(cp, d)
            if isinstance(d, (Slice, RVec)) or (isinstance(d, Agg) and d.name == '[]'):
                l, a, b = as_list(d)
                ps = l[a:b]
                return lambda cp: v_or(*[v_eq(cp, deref(x)) for x in ps])
            if isinstance(d, (FnRef, PyFn)) or (isinstance(d, Agg) and d.name.startswith('{closure')):
                return lambda cp: I.call_closure(Ptr([d], 0), [cp])
            if isinstance(d, ExtFn):
                return lambda cp: I.call(d.name, [cp])
            return None

        def trim_end_matches(I, s, pat):
            s = as_str(s)
            pr = charpred(I, pat)
            if pr is None:
                raise Unsupported('trim_end_matches with a string pattern')
            e = s.e
            for cp, nb in reversed(s.chars()):
                if I.branch(pr(cp)):
                    e -= nb
                else:
                    break
            return Str(s.b, s.s, e)
        reg('core::str::<impl str>::trim_end_matches', trim_end_matches)

        def trim_start_matches_slice(I, s, pats):
            s = as_str(s)
            pr = charpred(I, pats)
            if pr is None:
                raise Unsupported('trim_start_matches with a string pattern')
            st = s.s
            for cp, nb in s.chars():
                if I.branch(pr(cp)):
                    st += nb
                else:
                    break
            return Str(s.b, st, s.e)
        reg('core::str::<impl str>::trim_start_matches', trim_start_matches_slice)

        def is_ws(I, cp):
            if not is_sym(cp):
                return T.lookup('whitespace', cp) == 1
            lo, hi = cp_class(I, cp)
            return T.pred('whitespace', 1, cp, lo, hi)
        reg('char::methods::<impl char>::is_whitespace', is_ws)

        def is_alnum(I, cp):
            if not is_sym(cp):
                return T.lookup('alphanumeric', cp) == 1
            lo, hi = cp_class(I, cp)
            return T.pred('alphanumeric', 1, cp, lo, hi)
        reg('char::methods::<impl char>::is_alphanumeric', is_alnum)

        def len_utf8(I, cp):
            if not is_sym(cp):
                return utf8len(cp)
            lo, hi = cp_class(I, cp)
            if utf8len(lo) == utf8len(hi):
                return utf8len(lo)
            for n, top in ((1, 0x7f), (2, 0x7ff), (3, 0xffff)):
                if I.branch(z3.ULE(cp, top)):
                    return n
            return 4
        reg('char::methods::<impl char>::len_utf8', len_utf8)

        def uwidth(I, cp):
            if not is_sym(cp):
                w = T.lookup('width', cp)
                return NONE() if w < 0 else Some(w)
            lo, hi = cp_class(I, cp)
            vals = T.values('width', lo, hi)
            if -1 in vals:
                if I.branch(T.pred('width', -1, cp, lo, hi)):
                    return NONE()
                vals = [v for v in vals if v != -1]
            return Some(T.width_term(cp, lo, hi))
        reg('<char as UnicodeWidthChar>::width', uwidth)

        def trim(I, s, start=True, end=True):
            s = as_str(s)
            cs = s.chars()
            a, b = s.s, s.e
            i, j = 0, len(cs)
            if start:
                while i < j and I.branch(is_ws(I, cs[i][0])):
                    a += cs[i][1]
                    i += 1
            if end:
                while j > i and I.branch(is_ws(I, cs[j - 1][0])):
                    b -= cs[j - 1][1]
                    j -= 1
            return Str(s.b, a, b)
        reg('core::str::<impl str>::trim', lambda I, s: trim(I, s))
        reg('core::str::<impl str>::trim_end', lambda I, s: trim(I, s, start=False))
        reg('core::str::<impl str>::trim_start', lambda I, s: trim(I, s, end=False))

        def str_eq_chars(I, a, b):
            """branching equality of two char sequences (byte lengths are concrete)"""
            if len(a) != len(b):
                return False
            for (x, nx), (y, ny) in zip(a, b):
                if nx != ny:
                    return False
                if not I.branch(v_eq(x, y)):
                    return False
            return True

        def is_charpat(p):
            return isinstance(p, int) or (is_sym(p) and z3.is_bv(p))

        def is_predpat(I, p):
            return not isinstance(p, (Str, OString)) and not isinstance(deref(p), (Str, OString)) and \
                charpred(I, p) is not None

        def ends_with(I, s, p):
            s = as_str(s)
            if is_predpat(I, p):
                cs = s.chars()
                return bool(cs) and I.branch(charpred(I, p)(cs[-1][0]))
            p = as_str(p)
            if p.len() > s.len() or not s.is_boundary(s.len() - p.len()):
                return False
            return str_eq_chars(I, s.sub(s.len() - p.len(), s.len()).chars(), p.chars())
        reg('core::str::<impl str>::ends_with', ends_with)

        def starts_with(I, s, p):
            s = as_str(s)
            if is_predpat(I, p):
                cs = s.chars()
                return bool(cs) and I.branch(charpred(I, p)(cs[0][0]))
            p = as_str(p)
            if p.len() > s.len() or not s.is_boundary(p.len()):
                return False
            return str_eq_chars(I, s.sub(0, p.len()).chars(), p.chars())
        reg('core::str::<impl str>::starts_with', starts_with)

        def strip_suffix(I, s, p):
            s = as_str(s)
            if ends_with(I, s, p):
                n = as_str(s).chars()[-1][1] if is_predpat(I, p) else as_str(p).len()
                return Some(s.sub(0, s.len() - n))
            return NONE()
        reg('core::str::<impl str>::strip_suffix', strip_suffix)

        def utf8len_of(I, cp):
            return len_utf8(I, cp)

        reg('<&str as PartialEq>::eq|<str as PartialEq>::eq',
            lambda I, a, b: str_eq_chars(I, as_str(a).chars(), as_str(b).chars()))

        def find_sub(I, s, pt):
            """byte offset of the first occurrence of the string pattern pt, or None"""
            cs = s.chars()
            ps = pt.chars()
            off = 0
            for i in range(len(cs) - len(ps) + 1):
                if all(cs[i + t][1] == ps[t][1] for t in range(len(ps))) and \
                        all(I.branch(v_eq(cs[i + t][0], ps[t][0])) for t in range(len(ps))):
                    return off
                off += cs[i][1]
            return None

        def contains_char(I, s, ch):
            s = as_str(s)
            pr = charpred(I, ch)
            if pr is None:
                return find_sub(I, s, as_str(ch)) is not None
            for cp, nb in s.chars():
                if I.branch(pr(cp)):
                    return True
            return False
        reg('core::str::<impl str>::contains', contains_char)

        def find_char(I, s, ch):
            s = as_str(s)
            pr = charpred(I, ch)
            if pr is None:
                r = find_sub(I, s, as_str(ch))
                return NONE() if r is None else Some(r)
            off = 0
            for cp, nb in s.chars():
                if I.branch(pr(cp)):
                    return Some(off)
                off += nb
            return NONE()
        reg('core::str::<impl str>::find', find_char)

        reg('core::str::<impl str>::lines', lambda I, s: LinesIt(as_str(s)))
        def patlist(I, p):
            if is_charpat(p):
                return [p]
            if isinstance(p, (Str, OString)) or isinstance(deref(p), (Str, OString)):
                return [c for c, _ in as_str(p).chars()]
            pr = charpred(I, p)
            if pr is None:
                raise Unsupported('split pattern')
            return [PredPat(pr)]
        reg('core::str::<impl str>::split', lambda I, s, p: SplitIt(as_str(s), patlist(I, p)))
        reg('core::str::<impl str>::split_terminator', lambda I, s, p: SplitIt(as_str(s), patlist(I, p), True))
        # split_inclusive: pieces keep their terminator; no empty piece after a trailing terminator
        reg('core::str::<impl str>::split_inclusive',
            lambda I, s, p: SplitIt(as_str(s), patlist(I, p), True, inclusive=True))
        reg('core::str::<impl str>::match_indices', lambda I, s, ch: MatchIdx(as_str(s), ch))

        def split_at(I, s, mid):
            s = as_str(s)
            mid = conc(I, mid, 'split_at index')
            if not s.is_boundary(mid):
                raise Panic('split_at: not a char boundary')
            return Agg('()', [s.sub(0, mid), s.sub(mid, s.len())])
        reg('core::str::<impl str>::split_at', split_at)

        def repeat(I, s, n):
            s = as_str(s)
            n = I.enumerate_int(n, 'repeat count')
            return OString(s.chars() * n)
        reg('str::<impl str>::repeat|core::str::<impl str>::repeat|alloc::str::<impl str>::repeat', repeat)

        reg('<str as ToOwned>::to_owned|<String as From<&str>>::from|<str as ToString>::to_string',
            lambda I, s: OString(as_str(s).chars()))

        # ---------------- Chars / CharIndices / iterator adaptors
        def next_back(I, it):
            return deref(it).next_back(I)
        pat(r'^<.* as DoubleEndedIterator>::next_back$', next_back)
        pat(r'^<.* as Iterator>::next$', lambda I, it: I.iter_next(it))
        pat(r'^<.* as Iterator>::by_ref$', lambda I, it: it)
        pat(r'^<.* as Iterator>::map$', lambda I, it, clo: MapIt(it, clo))
        pat(r'^<.* as Iterator>::flat_map$', lambda I, it, clo: FlatMapIt(it, clo))
        pat(r'^<.* as Iterator>::filter$', lambda I, it, clo: FilterIt(it, clo))
        pat(r'^<.* as Iterator>::enumerate$', lambda I, it: EnumIt(it))
        pat(r'^<.* as Iterator>::zip$', lambda I, a, b: ZipIt(a, self.into_iter(I, b)))

        def collect(I, it):
            v = RVec()
            extend(I, v, it)
            return v
        pat(r'^<.* as Iterator>::collect$', collect)

        def it_sum(I, it):
            t = 0
            while True:
                r = I.iter_next(it)
                if r.v == 0:
                    return t
                t = v_add(t, deref(r.f[0]))
        pat(r'^<.* as Iterator>::sum$', it_sum)

        def it_any(I, it, clo):
            while True:
                r = I.iter_next(it)
                if r.v == 0:
                    return False
                if I.branch(I.call_closure(Ptr([clo], 0), [r.f[0]])):
                    return True
        pat(r'^<.* as Iterator>::any$', it_any)

        def it_all(I, it, clo):
            while True:
                r = I.iter_next(it)
                if r.v == 0:
                    return True
                if not I.branch(I.call_closure(Ptr([clo], 0), [r.f[0]])):
                    return False
        pat(r'^<.* as Iterator>::all$', it_all)

        def it_find(I, it, clo):
            while True:
                r = I.iter_next(it)
                if r.v == 0:
                    return r
                if I.branch(I.call_closure(Ptr([clo], 0), [Ptr(r.f, 0)])):
                    return r
        pat(r'^<.* as Iterator>::find$', it_find)

        pat(r'^<&mut .* as IntoIterator>::into_iter$', lambda I, x: x)
        pat(r'^<.* as IntoIterator>::into_iter$', lambda I, x: self.into_iter(I, x))
        reg('std::iter::from_fn', lambda I, c: FromFn(c))
        reg('Box::new', lambda I, x: x)

        # ---------------- Option / Result
        def unwrap_or(I, o, d):
            return o.f[0] if o.v == 1 else d
        pat(r'^Option::unwrap_or$', unwrap_or)

        def copied(I, o):
            if o.v == 0:
                return o
            v = deref(o.f[0])
            return Some(copyval(v))
        pat(r'^Option::(copied|cloned)$', copied)
        pat(r'^Option::is_some$', lambda I, o: deref(o).v == 1)
        pat(r'^Option::is_none$', lambda I, o: deref(o).v == 0)

        def opt_unwrap(I, o):
            if o.v == 0:
                raise Panic('called `Option::unwrap()` on a `None` value')
            return o.f[0]
        pat(r'^Option::(unwrap|expect)$', lambda I, o, *a: opt_unwrap(I, o))

        def res_unwrap(I, r):
            if r.v == 1:
                raise Panic('called `Result::unwrap()` on an `Err` value')
            return r.f[0]
        pat(r'^Result::(unwrap|expect)$', lambda I, r, *a: res_unwrap(I, r))

        def opt_filter(I, o, clo):
            if o.v == 0:
                return o
            return o if I.branch(I.call_closure(Ptr([clo], 0), [Ptr(o.f, 0)])) else NONE()
        pat(r'^Option::filter$', opt_filter)

        def opt_eq(I, a, b):
            a = deref(a)
            b = deref(b)
            if a.v != b.v:
                return False
            if a.v == 0:
                return True
            return v_eq(a.f[0], b.f[0])
        reg('<Option<char> as PartialEq>::eq', opt_eq)

        # ---------------- ranges, numbers
        reg('std::ops::RangeInclusive::<char>::new|RangeInclusive::<char>::new',
            lambda I, a, b: Agg('RangeInclusive', [a, b]))

        def ri_contains(I, r, x):
            r = deref(r)
            x = deref(x)
            return v_and(v_le(r.f[0], x), v_le(x, r.f[1]))
        pat(r'^(std::ops::)?RangeInclusive::contains$', ri_contains)

        def sat_sub(I, a, b):
            if not is_sym(a) and not is_sym(b):
                return max(a - b, 0)
            a, b = lift2(a, b)
            return z3.If(a < b, z3.IntVal(0), a - b)
        reg('core::num::<impl usize>::saturating_sub', sat_sub)

        def umax(I, a, b):
            if not is_sym(a) and not is_sym(b):
                return max(a, b)
            a, b = lift2(a, b)
            return z3.If(a > b, a, b)

        def umin(I, a, b):
            if not is_sym(a) and not is_sym(b):
                return min(a, b)
            a, b = lift2(a, b)
            return z3.If(a < b, a, b)
        reg('std::cmp::max', umax)
        reg('std::cmp::min', umin)
        reg('<usize as From<bool>>::from', lambda I, b: int(b) if isinstance(b, bool) else z3.If(b, z3.IntVal(1), z3.IntVal(0)))

        def rem_ref(I, a, b):
            return I.binop('Rem', deref(a), deref(b), 'usize')
        reg('<&usize as Rem<usize>>::rem', rem_ref)

        def fmax(I, a, b):
            if isinstance(a, float) and isinstance(b, float):
                if a != a:
                    return b
                if b != b:
                    return a
                return max(a, b)
            A, B = I.to_f(a), I.to_f(b)
            if isinstance(A, SymFP):
                return SymFP(z3.fpMax(A.t, B.t))
            if A.den != 1 or B.den != 1:
                raise Unsupported('f64::max on non-integers')
            return SymF(z3.If(A.e >= B.e, A.e, B.e))
        reg('core::f64::<impl f64>::max', fmax)

        def is_inf(I, x):
            if isinstance(x, float):
                return x in (float('inf'), float('-inf'))
            if isinstance(x, SymF):
                return False     # exact encoding: magnitudes are guarded below 2^53
            return z3.fpIsInf(x.t)
        reg('core::f64::<impl f64>::is_infinite', is_inf)

        def fcmp(op):
            def f(I, a, b):
                return I.fbinop(op, deref(a), deref(b)) if isinstance(deref(a), (float, SymF, SymFP)) or isinstance(deref(b), (float, SymF, SymFP)) \
                    else I.binop(op, deref(a), deref(b), 'usize')
            return f
        for nm, op in (('lt', 'Lt'), ('le', 'Le'), ('gt', 'Gt'), ('ge', 'Ge')):
            pat(r'^<\w+ as PartialOrd>::%s$' % nm, fcmp(op))

        def tup_lt(I, a, b):
            a = deref(a)
            b = deref(b)
            x0, x1 = a.f
            y0, y1 = b.f
            lt0 = fcmp('Lt')(I, x0, y0)
            eq0 = I.fbinop('Eq', x0, y0) if isinstance(x0, (float, SymF, SymFP)) or isinstance(y0, (float, SymF, SymFP)) else v_eq(x0, y0)
            return v_or(lt0, v_and(eq0, v_lt(x1, y1)))
        pat(r'^<\(T, usize\) as PartialOrd>::lt$', tup_lt)

        # ---------------- Vec / slices
        pat(r'^Vec::(new|with_capacity)$', lambda I, *a: RVec())
        pat(r'^Vec::push$', lambda I, v, x: deref(v).l.append(x))

        def vec_insert(I, v, i, x):
            v = deref(v)
            if i > len(v.l):
                raise Panic('insertion index out of range')
            v.l.insert(i, x)
        pat(r'^Vec::insert$', vec_insert)
        pat(r'^Vec::len$', lambda I, v: len(deref(v).l))
        pat(r'^Vec::is_empty$', lambda I, v: len(deref(v).l) == 0)
        pat(r'^Vec::pop$', lambda I, v: Some(deref(v).l.pop()) if deref(v).l else NONE())
        reg('std::vec::from_elem', lambda I, e, n: RVec([copyval(e) for _ in range(conc(I, n, 'vec length'))]))

        def vec_deref(I, v):
            v = deref(v)
            return Slice(v.l, 0, len(v.l))
        pat(r'^<Vec<.*> as Deref(Mut)?>::deref(_mut)?$', vec_deref)

        def vec_index(I, v, i):
            l, a, b = as_list(v)
            if isinstance(deref(i), Agg):
                x, y = range_bounds(i, b - a)
                x = conc(I, x, 'slice range start')
                y = conc(I, y, 'slice range end')
                if not (0 <= x <= y <= b - a):
                    raise Panic('slice index out of range')
                return Slice(l, a + x, a + y)
            i = conc(I, i, 'vec index')
            if not 0 <= i < b - a:
                raise Panic('index out of bounds: the len is %d but the index is %d' % (b - a, i))
            return Ptr(l, a + i)
        pat(r'^<(Vec<.*>|\[.*\]) as Index(Mut)?<.*>>::index(_mut)?$', vec_index)

        def extend(I, v, it):
            v = deref(v)
            it = self.into_iter(I, it)
            while True:
                r = I.iter_next(it)
                if r.v == 0:
                    return None
                v.l.append(r.f[0])
        pat(r'^<Vec<.*> as Extend<.*>>::extend$', extend)

        pat(r'^core::slice::<impl \[.*\]>::iter$', lambda I, s: RefIt(*as_list(s)))
        pat(r'^core::slice::<impl \[.*\]>::len$', lambda I, s: as_list(s)[2] - as_list(s)[1])
        pat(r'^core::slice::<impl \[.*\]>::is_empty$', lambda I, s: as_list(s)[2] == as_list(s)[1])

        def s_last(I, s):
            l, a, b = as_list(s)
            return Some(Ptr(l, b - 1)) if b > a else NONE()
        pat(r'^core::slice::<impl \[.*\]>::last$', s_last)

        def s_get(I, s, i):
            l, a, b = as_list(s)
            i = conc(I, i, 'slice index')
            return Some(Ptr(l, a + i)) if 0 <= i < b - a else NONE()
        pat(r'^core::slice::<impl \[.*\]>::get$', s_get)

        def s_reverse(I, s):
            l, a, b = as_list(s)
            l[a:b] = l[a:b][::-1]
        pat(r'^core::slice::<impl \[.*\]>::reverse$', s_reverse)

        def new_uninit(I):
            cell = [Agg('MaybeUninit', [None, Agg('ManuallyDrop', [Agg('MaybeDangling', [None])])])]
            return Agg('UBox', [Agg('Unique', [Ptr(cell, 0)])])
        reg('Box::new_uninit', new_uninit)
        reg('std::boxed::box_assume_init_into_vec_unsafe',
            lambda I, b: RVec(list(b.f[0].f[0].get().f[1].f[0].f[0].f)))

        # ---------------- String / Cow
        reg('String::new', lambda I: OString())
        reg('String::with_capacity', lambda I, n: OString())
        reg('String::push_str', lambda I, st, s: deref(st).chars.extend(as_str(s).chars()))

        def s_push(I, st, ch):
            if is_sym(ch):
                lo, hi = cp_class(I, ch)
                if utf8len(lo) != utf8len(hi):
                    nb = len_utf8(I, ch)
                else:
                    nb = utf8len(lo)
            else:
                nb = utf8len(ch)
            deref(st).chars.append((ch, nb))
        reg('String::push', s_push)

        def s_truncate(I, st, n):
            st = deref(st)
            n = conc(I, n, 'truncate length')
            if n >= st.blen():
                return
            s = st.as_str()
            if not s.is_boundary(n):
                raise Panic('String::truncate: not a char boundary')
            st.chars = s.sub(0, n).chars()
        reg('String::truncate', s_truncate)
        reg('<String as Deref>::deref', lambda I, s: as_str(s))

        def into_bytes(I, st):
            sl = as_bytes(I, st)
            return RVec(sl.l)
        reg('String::into_bytes', into_bytes)

        def from_utf8(I, v):
            l = deref(v).l
            out = []
            i = 0
            ok = True
            while i < len(l):
                b = l[i]
                if isinstance(b, MByte):
                    grp = l[i:i + b.n]
                    if b.k == 0 and len(grp) == b.n and all(isinstance(g, MByte) and g.ch is b.ch and g.k == t
                                                            for t, g in enumerate(grp)):
                        out.append(b.ch)
                        i += b.n
                        continue
                    ok = False
                    break
                if is_sym(b):
                    lo, hi = cp_class(I, b)
                    if hi > 0x7f:
                        raise Unsupported('from_utf8 on unclassified symbolic byte')
                elif b > 0x7f:
                    ok = False
                    break
                out.append((b, 1))
                i += 1
            if ok:
                return Enum('Result', 0, [OString(out)])
            return Enum('Result', 1, [Agg('FromUtf8Error', [])])
        reg('String::from_utf8', from_utf8)

        reg('<Cow<str> as From<&str>>::from', lambda I, s: Enum('Cow', 0, [as_str(s)]))
        reg('<Cow<str> as Deref>::deref', lambda I, c: as_str(c))

        def cow_add_assign(I, c, s):
            c = deref(c)
            s = as_str(s)
            if c.v == 0 and as_str(c.f[0]).len() == 0:
                # core: `if self.is_empty() { *self = Cow::Borrowed(rhs) }`
                c.f[0] = s
                return
            if c.v == 1 and c.f[0].blen() == 0:
                c.v = 0
                c.f[0] = s
                return
            if s.len() == 0:
                return
            if c.v == 0:
                c.v = 1
                c.f[0] = OString(as_str(c.f[0]).chars())
            c.f[0].chars.extend(s.chars())
        reg('<Cow<str> as AddAssign<&str>>::add_assign', cow_add_assign)

        def to_mut(I, c):
            c = deref(c)
            if c.v == 0:
                c.v = 1
                c.f[0] = OString(as_str(c.f[0]).chars())
            return Ptr(c.f, 0)
        reg('Cow::<str>::to_mut', to_mut)

        # ---------------- misc
        def mem_take(I, p):
            v = p.get()
            if isinstance(v, Str):
                p.set(mkstr(''))
            elif isinstance(v, OString):
                p.set(OString())
            elif isinstance(v, RVec):
                p.set(RVec())
            else:
                raise Unsupported('mem::take of %r' % (type(v).__name__,))
            return v
        reg('std::mem::take', mem_take)

        def clone(I, x):
            v = deref(x)
            if isinstance(v, OString):
                return OString(v.chars)
            if isinstance(v, RVec):
                return RVec([copyval(e) for e in v.l])
            return copyval(v)
        pat(r'^<.* as Clone>::clone$', clone)

        def into_options(I, o):
            if isinstance(o, Ptr):
                return copyval(deref(o))
            if isinstance(o, Agg):
                return o
            return I.run('Options::new', [o])
        reg('<Opt as Into<Options>>::into', into_options)

        pat(r'^<(M|F|&M|&F|.*closure.*|for<.*) as Fn(Mut|Once)?<.*>>::call(_mut|_once)?$',
            lambda I, clo, tup: I.call_closure(clo, list(tup.f)))

        def frag(idx):
            names = {0: 'width', 1: 'whitespace_width', 2: 'penalty_width'}

            def f(I, x):
                d = deref(x)
                if isinstance(d, Agg) and d.name == 'F':
                    return d.f[idx]
                key = '<%s as Fragment>::%s' % (d.name, names[idx])
                if key in I.prog.methods:
                    return I.exec_fn(I.items[I.prog.methods[key]], [x if isinstance(x, Ptr) else Ptr([d], 0)])
                raise Unsupported('Fragment impl for ' + d.name)
            return f
        reg('<T as Fragment>::width', frag(0))
        reg('<T as Fragment>::whitespace_width', frag(1))
        reg('<T as Fragment>::penalty_width', frag(2))

        # RefCell with dynamic borrow state: Agg('RefCell', [value, state]) state: 0 free, n>0 shared, -1 mut
        reg('RefCell::new', lambda I, v: Agg('RefCell', [v, 0]))

        def rc_borrow(I, c):
            c = deref(c)
            if c.f[1] < 0:
                raise Panic('RefCell already mutably borrowed')
            c.f[1] += 1
            return Agg('Ref', [c])

        def rc_borrow_mut(I, c):
            c = deref(c)
            if c.f[1] != 0:
                raise Panic('RefCell already borrowed')
            c.f[1] = -1
            return Agg('RefMut', [c])
        reg('RefCell::borrow', rc_borrow)
        reg('RefCell::borrow_mut', rc_borrow_mut)
        pat(r'^<Ref(Mut)?<.*> as Deref(Mut)?>::deref(_mut)?$', lambda I, r: Ptr(deref(r).f[0].f, 0))

        def do_panic(I, *a):
            msg = 'explicit panic'
            for x in a:
                if isinstance(x, Str):
                    msg = show_chars(x.chars())
            raise Panic(msg)
        pat(r'^(core|std)::panicking::\w+$', do_panic)
        pat(r'^std::rt::(panic_fmt|begin_panic.*)$', do_panic)
        pat(r'^core::option::(unwrap|expect)_failed$', do_panic)
        pat(r'^core::result::unwrap_failed$', do_panic)
        pat(r'^core::slice::index::\w+$', do_panic)
        pat(r'^core::str::slice_error_fail$', do_panic)
        pat(r'^(core::fmt::rt::)?Arguments?::.*$', lambda I, *a: None)

        def linebreaks(I, s):
            s = as_str(s)
            cs = s.chars()
            if any(is_sym(c) for c, _ in cs):
                raise Unsupported('unicode_linebreak::linebreaks on symbolic text (use an alphabet generator)')
            text = ''.join(chr(c) for c, _ in cs)
            from native import hexs
            st, r = I.native.call('linebreaks ' + hexs(text))
            if st != 'OK':
                raise Unsupported('native linebreaks failed: ' + r)
            ops = []
            for e in r.split():
                i, k = e.split(':')
                ops.append(Agg('()', [int(i), Enum('BreakOpportunity', 0 if k == 'M' else 1, [])]))
            return ListIt(ops)
        reg('linebreaks|unicode_linebreak::linebreaks', linebreaks)
        import models2
        models2.install(self)
        import models3
        models3.install(self)

    # ------------------------------------------------------------------
    def into_iter(self, I, x):
        d = x if isinstance(x, (Str, Slice)) else deref(x)
        if isinstance(d, RVec):
            if isinstance(x, Ptr):
                return RefIt(d.l, 0, len(d.l))      # &Vec<T>
            return ListIt(d.l)
        if isinstance(d, Slice):
            return RefIt(d.l, d.a, d.b)
        if isinstance(d, Agg) and d.name == '[]':
            return RefIt(d.f, 0, len(d.f)) if isinstance(x, Ptr) else ListIt(d.f)
        if isinstance(d, Enum) and d.ty == 'Option':      # Option<T> is IntoIterator (zero or one item)
            if isinstance(x, Ptr):
                return ListIt([Ptr(d.f, 0)] if d.v == 1 else [])
            return ListIt(list(d.f) if d.v == 1 else [])
        return x
