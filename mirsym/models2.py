"""More core/alloc models: functions /repo does not call today but realistic edits are likely to introduce
(iterator adaptors, slice/str/Option/integer helpers).  Same conventions as models.py."""
import z3

from parse import Unsupported
from values import *
from models import (as_str, as_list, conc, range_bounds, ListIt, RefIt, CharsIt, MapIt, FilterIt, EnumIt, ZipIt,
                    cp_class)


class BytesIt:
    def __init__(s, l):
        s.l = l
        s.i = 0
        s.j = len(l)

    def next(s, I):
        if s.i >= s.j:
            return NONE()
        v = s.l[s.i]
        s.i += 1
        return Some(v)

    def next_back(s, I):
        if s.i >= s.j:
            return NONE()
        s.j -= 1
        return Some(s.l[s.j])


class RevIt:
    def __init__(s, inner):
        s.inner = inner

    def next(s, I):
        it = deref(s.inner)
        if isinstance(it, RefIt):
            if it.i >= it.b:
                return NONE()
            it.b -= 1
            return Some(Ptr(it.l, it.b))
        if isinstance(it, EnumIt):
            raise Unsupported('rev of enumerate')
        return it.next_back(I)

    def next_back(s, I):
        return I.iter_next(s.inner)


class TakeIt:
    def __init__(s, inner, n):
        s.inner = inner
        s.n = n

    def next(s, I):
        if s.n <= 0:
            return NONE()
        s.n -= 1
        return I.iter_next(s.inner)


class SkipIt:
    def __init__(s, inner, n):
        s.inner = inner
        s.n = n

    def next(s, I):
        while s.n > 0:
            s.n -= 1
            r = I.iter_next(s.inner)
            if r.v == 0:
                return r
        return I.iter_next(s.inner)


class TakeWhileIt:
    def __init__(s, inner, clo):
        s.inner = inner
        s.clo = clo
        s.done = False

    def next(s, I):
        if s.done:
            return NONE()
        r = I.iter_next(s.inner)
        if r.v == 0:
            return r
        if I.branch(I.call_closure(Ptr([s.clo], 0), [Ptr(r.f, 0)])):
            return r
        s.done = True
        return NONE()


class SkipWhileIt:
    def __init__(s, inner, clo):
        s.inner = inner
        s.clo = clo
        s.started = False

    def next(s, I):
        while True:
            r = I.iter_next(s.inner)
            if r.v == 0 or s.started:
                return r
            if not I.branch(I.call_closure(Ptr([s.clo], 0), [Ptr(r.f, 0)])):
                s.started = True
                return r


class ChainIt:
    def __init__(s, a, b):
        s.a = a
        s.b = b

    def next(s, I):
        if s.a is not None:
            r = I.iter_next(s.a)
            if r.v == 1:
                return r
            s.a = None
        return I.iter_next(s.b)


class PeekIt:
    def __init__(s, inner):
        s.inner = inner
        s.buf = None

    def next(s, I):
        if s.buf is not None:
            r = s.buf
            s.buf = None
            return r
        return I.iter_next(s.inner)

    def peek(s, I):
        if s.buf is None:
            s.buf = I.iter_next(s.inner)
        if s.buf.v == 0:
            return NONE()
        return Some(Ptr(s.buf.f, 0))


class ChunksIt:
    def __init__(s, l, a, b, n):
        s.l, s.i, s.b, s.n = l, a, b, n

    def next(s, I):
        if s.i >= s.b:
            return NONE()
        e = min(s.i + s.n, s.b)
        r = Slice(s.l, s.i, e)
        s.i = e
        return Some(r)


def install(M):
    reg = M.reg
    pat = M.pat

    # ---------------- str
    def str_bytes(I, s):
        from models import MByte
        out = []
        for ch in as_str(s).chars():
            cp, nb = ch
            if nb == 1:
                out.append(cp)
            else:
                out.extend(MByte(ch, k, nb) for k in range(nb))
        return BytesIt(out)
    reg('core::str::<impl str>::bytes', str_bytes)
    def str_is_ascii(I, s):
        for cp, nb in as_str(s).chars():
            if nb > 1:
                return False
        return True
    reg('core::str::<impl str>::is_ascii', str_is_ascii)
    reg('core::str::<impl str>::is_char_boundary', lambda I, s, i: as_str(s).is_boundary(conc(I, i, 'index')))
    reg('String::as_str|core::str::<impl str>::as_str', lambda I, s: as_str(s))

    def str_get(I, s, r):
        s = as_str(s)
        a, b = range_bounds(r, s.len())
        a = conc(I, a, 'str index')
        b = conc(I, b, 'str index')
        if not (0 <= a <= b <= s.len()) or not s.is_boundary(a) or not s.is_boundary(b):
            return NONE()
        return Some(s.sub(a, b))
    reg('core::str::<impl str>::get', str_get)

    def strip_prefix(I, s, p):
        s = as_str(s)
        starts = M.exact['core::str::<impl str>::starts_with']
        if starts(I, s, p):
            n = 1 if not isinstance(p, (Str,)) and not isinstance(deref(p), (Str, OString)) else as_str(p).len()
            if n == 1 and not isinstance(deref(p), (Str, OString)):
                n = s.chars()[0][1]
            return Some(s.sub(n, s.len()))
        return NONE()
    reg('core::str::<impl str>::strip_prefix', strip_prefix)

    def trim_matches(I, s, ch):
        s = as_str(s)
        cs = s.chars()
        a, b, i, j = s.s, s.e, 0, len(cs)
        while i < j and I.branch(v_eq(cs[i][0], ch)):
            a += cs[i][1]
            i += 1
        while j > i and I.branch(v_eq(cs[j - 1][0], ch)):
            b -= cs[j - 1][1]
            j -= 1
        return Str(s.b, a, b)
    reg('core::str::<impl str>::trim_matches', trim_matches)

    def rfind_char(I, s, ch):
        cs = as_str(s).chars()
        off = as_str(s).len()
        for cp, nb in reversed(cs):
            off -= nb
            if I.branch(v_eq(cp, ch)):
                return Some(off)
        return NONE()
    reg('core::str::<impl str>::rfind', rfind_char)

    def split_once(I, s, ch):
        s = as_str(s)
        off = 0
        for cp, nb in s.chars():
            if I.branch(v_eq(cp, ch)):
                return Some(Agg('()', [s.sub(0, off), s.sub(off + nb, s.len())]))
            off += nb
        return NONE()
    reg('core::str::<impl str>::split_once', split_once)

    def to_string(I, x):
        v = deref(x)
        if isinstance(v, (Str, OString)) or (isinstance(v, Enum) and v.ty == 'Cow'):
            return OString(as_str(v).chars())
        raise Unsupported('to_string of %r' % (type(v).__name__,))
    pat(r'^<.* as ToString>::to_string$', to_string)
    reg('Cow::into_owned', lambda I, c: OString(as_str(c).chars()))

    # ---------------- String
    reg('String::clear', lambda I, s: deref(s).chars.clear())
    reg('String::pop', lambda I, s: Some(deref(s).chars.pop()[0]) if deref(s).chars else NONE())

    def s_insert_str(I, st, idx, s):
        st = deref(st)
        cur = st.as_str()
        idx = conc(I, idx, 'insert index')
        if not cur.is_boundary(idx):
            raise Panic('String::insert_str: not a char boundary')
        k = cur.b.idx[idx]
        st.chars[k:k] = as_str(s).chars()
    reg('String::insert_str', s_insert_str)

    def s_insert(I, st, idx, ch):
        st = deref(st)
        cur = st.as_str()
        idx = conc(I, idx, 'insert index')
        if not cur.is_boundary(idx):
            raise Panic('String::insert: not a char boundary')
        k = cur.b.idx[idx]
        nb = utf8len(ch) if not is_sym(ch) else utf8len(cp_class(I, ch)[0])
        st.chars.insert(k, (ch, nb))
    reg('String::insert', s_insert)

    def s_add_assign(I, st, s):
        deref(st).chars.extend(as_str(s).chars())
    reg('<String as AddAssign<&str>>::add_assign', s_add_assign)

    def s_add(I, st, s):
        st.chars.extend(as_str(s).chars())
        return st
    reg('<String as Add<&str>>::add', s_add)
    reg('<String as Extend<char>>::extend', lambda I, st, it: [deref(st).chars.append((c, utf8len(c) if not is_sym(c) else utf8len(cp_class(I, c)[0]))) for c in _drain(I, it)] and None)

    def _drain(I, it):
        it = M.into_iter(I, it)
        out = []
        while True:
            r = I.iter_next(it)
            if r.v == 0:
                return out
            out.append(r.f[0])

    # ---------------- iterator adaptors
    pat(r'^<.* as Iterator>::rev$', lambda I, it: RevIt(it))
    pat(r'^<.* as Iterator>::take$', lambda I, it, n: TakeIt(it, conc(I, n, 'take count')))
    pat(r'^<.* as Iterator>::skip$', lambda I, it, n: SkipIt(it, conc(I, n, 'skip count')))
    pat(r'^<.* as Iterator>::take_while$', lambda I, it, clo: TakeWhileIt(it, clo))
    pat(r'^<.* as Iterator>::skip_while$', lambda I, it, clo: SkipWhileIt(it, clo))
    pat(r'^<.* as Iterator>::chain$', lambda I, a, b: ChainIt(a, M.into_iter(I, b)))
    pat(r'^<.* as Iterator>::peekable$', lambda I, it: PeekIt(it))
    pat(r'^(std::iter::)?Peekable::peek$', lambda I, it: deref(it).peek(I))
    pat(r'^<.* as Iterator>::(copied|cloned)$', lambda I, it: MapIt(it, PyFnClone))
    reg('std::iter::once', lambda I, x: ListIt([x]))
    reg('std::iter::empty', lambda I: ListIt([]))

    def it_count(I, it):
        return len(_drain(I, it))
    pat(r'^<.* as Iterator>::count$', it_count)

    def it_last(I, it):
        xs = _drain(I, it)
        return Some(xs[-1]) if xs else NONE()
    pat(r'^<.* as Iterator>::last$', it_last)

    def it_nth(I, it, n):
        n = conc(I, n, 'nth')
        r = NONE()
        for _ in range(n + 1):
            r = I.iter_next(it)
            if r.v == 0:
                return r
        return r
    pat(r'^<.* as Iterator>::nth$', it_nth)

    def it_position(I, it, clo):
        k = 0
        while True:
            r = I.iter_next(it)
            if r.v == 0:
                return NONE()
            if I.branch(I.call_closure(Ptr([clo], 0), [r.f[0]])):
                return Some(k)
            k += 1
    pat(r'^<.* as Iterator>::position$', it_position)

    def it_fold(I, it, init, clo):
        acc = init
        while True:
            r = I.iter_next(it)
            if r.v == 0:
                return acc
            acc = I.call_closure(Ptr([clo], 0), [acc, r.f[0]])
    pat(r'^<.* as Iterator>::fold$', it_fold)

    def it_for_each(I, it, clo):
        while True:
            r = I.iter_next(it)
            if r.v == 0:
                return Agg('()', [])
            I.call_closure(Ptr([clo], 0), [r.f[0]])
    pat(r'^<.* as Iterator>::for_each$', it_for_each)

    def it_minmax(want_max):
        def f(I, it):
            xs = [deref(x) for x in _drain(I, it)]
            if not xs:
                return NONE()
            cur = xs[0]
            for x in xs[1:]:
                c = v_le(cur, x) if want_max else v_lt(x, cur)
                cur = v_ite(c, x, cur)
            return Some(cur)
        return f
    pat(r'^<.* as Iterator>::max$', it_minmax(True))
    pat(r'^<.* as Iterator>::min$', it_minmax(False))

    # ---------------- slices / Vec
    def s_first(I, s):
        l, a, b = as_list(s)
        return Some(Ptr(l, a)) if b > a else NONE()
    pat(r'^core::slice::<impl \[.*\]>::first$', s_first)

    def s_split_last(I, s):
        l, a, b = as_list(s)
        return Some(Agg('()', [Ptr(l, b - 1), Slice(l, a, b - 1)])) if b > a else NONE()
    pat(r'^core::slice::<impl \[.*\]>::split_last$', s_split_last)

    def s_split_first(I, s):
        l, a, b = as_list(s)
        return Some(Agg('()', [Ptr(l, a), Slice(l, a + 1, b)])) if b > a else NONE()
    pat(r'^core::slice::<impl \[.*\]>::split_first$', s_split_first)

    def s_chunks(I, s, n):
        l, a, b = as_list(s)
        n = conc(I, n, 'chunk size')
        if n == 0:
            raise Panic('chunk size must be non-zero')
        return ChunksIt(l, a, b, n)
    pat(r'^core::slice::<impl \[.*\]>::chunks$', s_chunks)
    pat(r'^core::slice::<impl \[.*\]>::to_vec$', lambda I, s: RVec([copyval(x) for x in as_list(s)[0][as_list(s)[1]:as_list(s)[2]]]))
    pat(r'^core::slice::<impl \[.*\]>::iter_mut$', lambda I, s: RefIt(*as_list(s)))
    pat(r'^core::slice::<impl \[.*\]>::last_mut$', lambda I, s: (Some(Ptr(as_list(s)[0], as_list(s)[2] - 1)) if as_list(s)[2] > as_list(s)[1] else NONE()))

    def s_contains(I, s, x):
        l, a, b = as_list(s)
        x = deref(x)
        for e in l[a:b]:
            if I.branch(v_eq(deref(e), x)):
                return True
        return False
    pat(r'^core::slice::<impl \[.*\]>::contains$', s_contains)

    def s_split_at(I, s, mid):
        l, a, b = as_list(s)
        mid = conc(I, mid, 'split_at')
        if mid > b - a:
            raise Panic('mid > len in split_at')
        return Agg('()', [Slice(l, a, a + mid), Slice(l, a + mid, b)])
    pat(r'^core::slice::<impl \[.*\]>::split_at$', s_split_at)

    pat(r'^Vec::extend_from_slice$', lambda I, v, s: deref(v).l.extend(copyval(x) for x in as_list(s)[0][as_list(s)[1]:as_list(s)[2]]))
    pat(r'^Vec::clear$', lambda I, v: deref(v).l.clear())

    def v_truncate(I, v, n):
        n = conc(I, n, 'truncate')
        del deref(v).l[n:]
    pat(r'^Vec::truncate$', v_truncate)

    def v_remove(I, v, i):
        i = conc(I, i, 'remove index')
        l = deref(v).l
        if not 0 <= i < len(l):
            raise Panic('removal index out of bounds')
        return l.pop(i)
    pat(r'^Vec::remove$', v_remove)

    def v_swap(I, s, i, j):
        l, a, b = as_list(s)
        if not (0 <= i < b - a and 0 <= j < b - a):
            raise Panic('swap index out of bounds')
        l[a + i], l[a + j] = l[a + j], l[a + i]
    pat(r'^core::slice::<impl \[.*\]>::swap$', v_swap)
    pat(r'^Vec::last$', lambda I, v: s_last_vec(I, v))

    def s_last_vec(I, v):
        l, a, b = as_list(v)
        return Some(Ptr(l, b - 1)) if b > a else NONE()

    # ---------------- Option / Result
    def opt_map(I, o, clo):
        return Some(I.call_closure(Ptr([clo], 0), [o.f[0]])) if o.v == 1 else o
    pat(r'^Option::map$', opt_map)
    pat(r'^Option::and_then$', lambda I, o, clo: I.call_closure(Ptr([clo], 0), [o.f[0]]) if o.v == 1 else o)
    pat(r'^Option::map_or$', lambda I, o, d, clo: I.call_closure(Ptr([clo], 0), [o.f[0]]) if o.v == 1 else d)
    pat(r'^Option::unwrap_or_else$', lambda I, o, clo: o.f[0] if o.v == 1 else I.call_closure(Ptr([clo], 0), []))
    pat(r'^Option::or$', lambda I, a, b: a if a.v == 1 else b)
    pat(r'^Option::is_some_and$', lambda I, o, clo: I.call_closure(Ptr([clo], 0), [o.f[0]]) if o.v == 1 else False)
    pat(r'^Option::ok_or$', lambda I, o, e: Enum('Result', 0, [o.f[0]]) if o.v == 1 else Enum('Result', 1, [e]))

    def opt_take(I, p):
        o = p.get()
        p.set(NONE())
        return o
    pat(r'^Option::take$', opt_take)

    def opt_unwrap_or_default(I, o):
        if o.v == 1:
            return o.f[0]
        raise Unsupported('unwrap_or_default on None (type-directed default)')
    pat(r'^Option::unwrap_or_default$', opt_unwrap_or_default)
    pat(r'^Result::is_ok$', lambda I, r: deref(r).v == 0)
    pat(r'^Result::is_err$', lambda I, r: deref(r).v == 1)
    pat(r'^Result::ok$', lambda I, r: Some(r.f[0]) if r.v == 0 else NONE())

    # ---------------- integers
    U = (1 << 64) - 1

    def sat_add(I, a, b):
        if not is_sym(a) and not is_sym(b):
            return min(a + b, U)
        a, b = lift2(a, b)
        return z3.If(a + b > U, z3.IntVal(U), a + b)
    reg('core::num::<impl usize>::saturating_add', sat_add)

    def chk(op):
        def f(I, a, b):
            r = v_add(a, b) if op == 'add' else v_sub(a, b) if op == 'sub' else (a * b)
            bad = v_lt(U, r) if op != 'sub' else v_lt(a, b)
            if I.branch(bad):
                return NONE()
            return Some(r)
        return f
    reg('core::num::<impl usize>::checked_add', chk('add'))
    reg('core::num::<impl usize>::checked_sub', chk('sub'))
    reg('core::num::<impl usize>::checked_mul', chk('mul'))
    reg('core::num::<impl usize>::wrapping_sub', lambda I, a, b: I.binop('Sub', a, b, 'usize'))
    reg('core::num::<impl usize>::wrapping_add', lambda I, a, b: I.binop('Add', a, b, 'usize'))

    def abs_diff(I, a, b):
        return v_ite(v_lt(a, b), v_sub(b, a), v_sub(a, b))
    reg('core::num::<impl usize>::abs_diff', abs_diff)

    def umax(I, a, b):
        a, b = deref(a), deref(b)
        if isinstance(a, (float, SymF, SymFP)) or isinstance(b, (float, SymF, SymFP)):
            raise Unsupported('Ord::max on floats')
        return v_ite(v_lt(b, a), a, b)

    def umin(I, a, b):
        a, b = deref(a), deref(b)
        return v_ite(v_lt(b, a), b, a)
    pat(r'^<(usize|u8|u32|u64|char) as Ord>::max$', umax)
    pat(r'^<(usize|u8|u32|u64|char) as Ord>::min$', umin)
    pat(r'^core::cmp::Ord::max$', umax)
    pat(r'^core::cmp::Ord::min$', umin)

    def f_is_finite(I, x):
        if isinstance(x, float):
            return x == x and x not in (float('inf'), float('-inf'))
        if isinstance(x, SymF):
            return True
        return z3.And(z3.Not(z3.fpIsInf(x.t)), z3.Not(z3.fpIsNaN(x.t)))
    reg('core::f64::<impl f64>::is_finite', f_is_finite)
    reg('core::f64::<impl f64>::is_nan', lambda I, x: (x != x) if isinstance(x, float) else (False if isinstance(x, SymF) else z3.fpIsNaN(x.t)))

    def fmin(I, a, b):
        if isinstance(a, float) and isinstance(b, float):
            if a != a:
                return b
            if b != b:
                return a
            return min(a, b)
        A, B = I.to_f(a), I.to_f(b)
        if isinstance(A, SymFP):
            return SymFP(z3.fpMin(A.t, B.t))
        return SymF(z3.If(A.e <= B.e, A.e, B.e))
    reg('core::f64::<impl f64>::min', fmin)

    # ---------------- char
    def ascii_pred(lo_hi_list):
        def f(I, c):
            c = deref(c)
            return v_or(*[v_and(v_le(lo, c), v_le(c, hi)) for lo, hi in lo_hi_list])
        return f
    reg('char::methods::<impl char>::is_ascii', ascii_pred([(0, 0x7f)]))
    reg('char::methods::<impl char>::is_ascii_digit', ascii_pred([(0x30, 0x39)]))
    reg('char::methods::<impl char>::is_ascii_alphabetic', ascii_pred([(0x41, 0x5a), (0x61, 0x7a)]))
    reg('char::methods::<impl char>::is_ascii_alphanumeric', ascii_pred([(0x30, 0x39), (0x41, 0x5a), (0x61, 0x7a)]))
    reg('char::methods::<impl char>::is_ascii_whitespace', ascii_pred([(9, 10), (12, 13), (32, 32)]))
    reg('char::methods::<impl char>::is_ascii_punctuation', ascii_pred([(0x21, 0x2f), (0x3a, 0x40), (0x5b, 0x60), (0x7b, 0x7e)]))
    reg('char::methods::<impl char>::is_ascii_control', ascii_pred([(0, 0x1f), (0x7f, 0x7f)]))

    def u8_pred(lo_hi_list):
        from values import MByte

        def f(I, c):
            c = deref(c)
            if isinstance(c, MByte):
                return False          # a byte of a multi-byte character is >= 0x80
            return v_or(*[v_and(v_le(lo, c), v_le(c, hi)) for lo, hi in lo_hi_list])
        return f
    reg('core::num::<impl u8>::is_ascii', u8_pred([(0, 0x7f)]))
    reg('core::num::<impl u8>::is_ascii_digit', u8_pred([(0x30, 0x39)]))
    reg('core::num::<impl u8>::is_ascii_alphabetic', u8_pred([(0x41, 0x5a), (0x61, 0x7a)]))
    reg('core::num::<impl u8>::is_ascii_alphanumeric', u8_pred([(0x30, 0x39), (0x41, 0x5a), (0x61, 0x7a)]))
    reg('core::num::<impl u8>::is_ascii_whitespace', u8_pred([(9, 10), (12, 13), (32, 32)]))
    reg('core::num::<impl u8>::is_ascii_punctuation', u8_pred([(0x21, 0x2f), (0x3a, 0x40), (0x5b, 0x60), (0x7b, 0x7e)]))
    reg('core::num::<impl u8>::is_ascii_control', u8_pred([(0, 0x1f), (0x7f, 0x7f)]))
    reg('core::num::<impl u8>::is_ascii_graphic', u8_pred([(0x21, 0x7e)]))
    reg('char::methods::<impl char>::is_ascii_graphic', ascii_pred([(0x21, 0x7e)]))
    reg('char::methods::<impl char>::is_control', ascii_pred([(0, 0x1f), (0x7f, 0x9f)]))

    def s_concat(I, s):
        l, a, b = as_list(s)
        out = []
        for e in l[a:b]:
            out.extend(as_str(e).chars())
        return OString(out)
    pat(r'^(alloc::)?slice::<impl \[.*\]>::concat$', s_concat)

    def s_join(I, s, sep):
        l, a, b = as_list(s)
        out = []
        for k, e in enumerate(l[a:b]):
            if k:
                out.extend(as_str(sep).chars())
            out.extend(as_str(e).chars())
        return OString(out)
    pat(r'^(alloc::)?slice::<impl \[.*\]>::join$', s_join)

    def byteval(x):
        from values import MByte
        x = deref(x)
        return x.value() if isinstance(x, MByte) else x

    def char_from_u8(I, b):
        return byteval(b)
    reg('<char as From<u8>>::from', char_from_u8)
    reg('<u32 as From<char>>::from|<u32 as From<u8>>::from|<usize as From<u8>>::from', lambda I, c: byteval(c))
    reg('String::as_bytes', lambda I, s: M.exact['core::str::<impl str>::as_bytes'](I, s))

    def bytes_eq(I, xs, ys):
        if len(xs) != len(ys):
            return False
        for a, b in zip(xs, ys):
            if not I.branch(v_eq(byteval(a), byteval(b))):
                return False
        return True

    def sl_ends_with(I, s, t):
        l, a, b = as_list(s)
        m, c, d = as_list(t)
        n = d - c
        if n > b - a:
            return False
        return bytes_eq(I, l[b - n:b], m[c:d])
    pat(r'^core::slice::<impl \[.*\]>::ends_with$', sl_ends_with)

    def sl_starts_with(I, s, t):
        l, a, b = as_list(s)
        m, c, d = as_list(t)
        n = d - c
        if n > b - a:
            return False
        return bytes_eq(I, l[a:a + n], m[c:d])
    pat(r'^core::slice::<impl \[.*\]>::starts_with$', sl_starts_with)

    pat(r'^<f64 as From<(u8|u16|u32|i32)>>::from$', lambda I, v: float(v) if isinstance(v, int) else I.int_to_float(v))
    pat(r'^<(usize|u64|u32) as From<(u8|u16|u32|bool)>>::from$', lambda I, v: (int(v) if isinstance(v, (int, bool)) else v))

    def f_abs(I, x):
        if isinstance(x, float):
            return abs(x)
        if isinstance(x, SymF):
            return SymF(z3.If(x.e >= 0, x.e, -x.e), x.den)
        return SymFP(z3.fpAbs(x.t))
    reg('core::f64::<impl f64>::abs', f_abs)

    def f_powi(I, x, n):
        n = conc(I, n, 'powi exponent')
        if n < 0 or n > 4:
            raise Unsupported('powi exponent %d' % n)
        r = 1.0
        for _ in range(n):
            r = I.fbinop('Mul', r, x) if not (isinstance(r, float) and r == 1.0) else x
        return r
    reg('core::f64::<impl f64>::powi', f_powi)

    def u_pow(I, x, n):
        n = conc(I, n, 'pow exponent')
        r = 1
        for _ in range(n):
            r = r * x if not is_sym(x) else (x if isinstance(r, int) and r == 1 else r * x)
        return r
    reg('core::num::<impl usize>::pow', u_pow)

    def opt_as_ref(I, o):
        d = deref(o)
        return Some(Ptr(d.f, 0)) if d.v == 1 else NONE()
    pat(r'^Option::(as_ref|as_mut|as_deref)$', opt_as_ref)

    def opt_zip(I, a, b):
        return Some(Agg('()', [a.f[0], b.f[0]])) if a.v == 1 and b.v == 1 else NONE()
    pat(r'^Option::zip$', opt_zip)

    def s_windows(I, s, n):
        l, a, b = as_list(s)
        n = conc(I, n, 'window size')
        return ListIt([Slice(l, i, i + n) for i in range(a, b - n + 1)])
    pat(r'^core::slice::<impl \[.*\]>::windows$', s_windows)

    def v_retain(I, v, clo):
        d = deref(v)
        d.l[:] = [x for k, x in enumerate(list(d.l)) if I.branch(I.call_closure(Ptr([clo], 0), [Ptr(d.l, k)]))]
    pat(r'^Vec::retain$', v_retain)

    def split_ws(I, s):
        s = as_str(s)
        out = []
        cur = None
        off = 0
        T = M.tables
        for cp, nb in s.chars():
            w = (T.lookup('whitespace', cp) == 1) if not is_sym(cp) else I.branch(T.pred('whitespace', 1, cp, *cp_class(I, cp)))
            if w:
                if cur is not None:
                    out.append(s.sub(cur, off))
                    cur = None
            elif cur is None:
                cur = off
            off += nb
        if cur is not None:
            out.append(s.sub(cur, off))
        return ListIt(out)
    reg('core::str::<impl str>::split_whitespace', split_ws)
    pat(r'^<&str as Into<String>>::into$', lambda I, s: OString(as_str(s).chars()))
    pat(r'^<String as From<&String>>::from$', lambda I, s: OString(as_str(s).chars()))
    pat(r'^<String as From<Cow<.*>>>::from$', lambda I, s: OString(as_str(s).chars()))

    # ---------------- mem
    def mem_replace(I, p, v):
        old = p.get()
        p.set(v)
        return old
    reg('std::mem::replace', mem_replace)

    def mem_swap(I, a, b):
        x, y = a.get(), b.get()
        a.set(y)
        b.set(x)
    reg('std::mem::swap', mem_swap)


def _clone_fn(I, x):
    return copyval(deref(x))


from interp import PyFn  # noqa: E402
PyFnClone = PyFn(_clone_fn, 'clone')
