"""Third batch of core/alloc models: adaptors and helpers that behaviour-preserving clean-ups of /repo tend to
introduce (filter_map, scan, map_while, step_by, rposition, bool::then, Option/Result combinators, rsplit ...).
A model that is wrong can only make a run INCONCLUSIVE (per-path native validation / replay), never a violation."""
import z3

from parse import Unsupported
from values import *
from models import as_str, as_list, conc, ListIt, RefIt, MapIt, cp_class


class FilterMapIt:
    def __init__(s, inner, clo):
        s.inner, s.clo = inner, clo

    def next(s, I):
        while True:
            r = I.iter_next(s.inner)
            if r.v == 0:
                return r
            o = I.call_closure(Ptr([s.clo], 0), [r.f[0]])
            if o.v == 1:
                return o


class MapWhileIt:
    def __init__(s, inner, clo):
        s.inner, s.clo, s.done = inner, clo, False

    def next(s, I):
        if s.done:
            return NONE()
        r = I.iter_next(s.inner)
        if r.v == 0:
            return r
        o = I.call_closure(Ptr([s.clo], 0), [r.f[0]])
        if o.v == 0:
            s.done = True
        return o


class ScanIt:
    def __init__(s, inner, state, clo):
        s.inner, s.state, s.clo, s.done = inner, [state], clo, False

    def next(s, I):
        if s.done:
            return NONE()
        r = I.iter_next(s.inner)
        if r.v == 0:
            return r
        o = I.call_closure(Ptr([s.clo], 0), [Ptr(s.state, 0), r.f[0]])
        if o.v == 0:
            s.done = True
        return o


class StepByIt:
    def __init__(s, inner, n):
        s.inner, s.n, s.first = inner, n, True

    def next(s, I):
        if s.first:
            s.first = False
            return I.iter_next(s.inner)
        r = NONE()
        for _ in range(s.n):
            r = I.iter_next(s.inner)
            if r.v == 0:
                return r
        return r


class InspectIt:
    def __init__(s, inner, clo):
        s.inner, s.clo = inner, clo

    def next(s, I):
        r = I.iter_next(s.inner)
        if r.v == 1:
            I.call_closure(Ptr([s.clo], 0), [Ptr(r.f, 0)])
        return r


class RepeatIt:
    def __init__(s, v, n=None):
        s.v, s.n = v, n

    def next(s, I):
        if s.n is not None:
            if s.n <= 0:
                return NONE()
            s.n -= 1
        return Some(copyval(s.v))


class CycleIt:
    """Iterator::cycle: items are remembered as the inner iterator yields them and replayed for ever afterwards
    (an empty inner iterator stays empty)"""

    def __init__(s, inner):
        s.inner, s.buf, s.k, s.replay = inner, [], 0, False

    def next(s, I):
        if not s.replay:
            r = I.iter_next(s.inner)
            if r.v == 1:
                s.buf.append(r.f[0])
                return Some(copyval(r.f[0]))
            s.replay = True
        if not s.buf:
            return NONE()
        v = s.buf[s.k % len(s.buf)]
        s.k += 1
        return Some(copyval(v))


class SuccIt:
    def __init__(s, first, clo):
        s.cur, s.clo = first, clo

    def next(s, I):
        r = s.cur
        if r.v == 1:
            s.cur = I.call_closure(Ptr([s.clo], 0), [Ptr(r.f, 0)])
        return copyval(r)


def install(M):
    reg = M.reg
    pat = M.pat

    def _drain(I, it):
        it = M.into_iter(I, it)
        out = []
        while True:
            r = I.iter_next(it)
            if r.v == 0:
                return out
            out.append(r.f[0])

    # ---------------- iterator adaptors / consumers
    pat(r'^<.* as Iterator>::filter_map$', lambda I, it, clo: FilterMapIt(it, clo))
    pat(r'^<.* as Iterator>::map_while$', lambda I, it, clo: MapWhileIt(it, clo))
    pat(r'^<.* as Iterator>::scan$', lambda I, it, st, clo: ScanIt(it, st, clo))
    pat(r'^<.* as Iterator>::step_by$', lambda I, it, n: StepByIt(it, conc(I, n, 'step')))
    pat(r'^<.* as Iterator>::inspect$', lambda I, it, clo: InspectIt(it, clo))
    pat(r'^<.* as Iterator>::fuse$', lambda I, it: it)
    pat(r'^<.* as Iterator>::cycle$', lambda I, it: CycleIt(it))
    reg('std::iter::repeat', lambda I, v: RepeatIt(v))
    reg('std::iter::repeat_n', lambda I, v, n: RepeatIt(v, conc(I, n, 'repeat_n')))
    reg('std::iter::successors', lambda I, first, clo: SuccIt(first, clo))

    def it_find_map(I, it, clo):
        while True:
            r = I.iter_next(it)
            if r.v == 0:
                return r
            o = I.call_closure(Ptr([clo], 0), [r.f[0]])
            if o.v == 1:
                return o
    pat(r'^<.* as Iterator>::find_map$', it_find_map)

    def it_rposition(I, it, clo):
        xs = _drain(I, it)
        for k in range(len(xs) - 1, -1, -1):
            if I.branch(I.call_closure(Ptr([clo], 0), [xs[k]])):
                return Some(k)
        return NONE()
    pat(r'^<.* as Iterator>::rposition$', it_rposition)

    def it_rfind(I, it, clo):
        it = deref(it)
        while True:
            r = it.next_back(I)
            if r.v == 0:
                return r
            if I.branch(I.call_closure(Ptr([clo], 0), [Ptr(r.f, 0)])):
                return r
    pat(r'^<.* as DoubleEndedIterator>::rfind$', it_rfind)

    def it_unzip(I, it):
        a, b = RVec(), RVec()
        for x in _drain(I, it):
            a.l.append(x.f[0])
            b.l.append(x.f[1])
        return Agg('()', [a, b])
    pat(r'^<.* as Iterator>::unzip$', it_unzip)

    def it_by_key(want_max):
        def f(I, it, clo):
            best = None
            for x in _drain(I, it):
                k = I.call_closure(Ptr([clo], 0), [Ptr([x], 0)])
                if best is None:
                    best = (k, x)
                elif I.branch(v_le(best[0], k) if want_max else v_lt(k, best[0])):
                    best = (k, x)
            return Some(best[1]) if best else NONE()
        return f
    pat(r'^<.* as Iterator>::max_by_key$', it_by_key(True))
    pat(r'^<.* as Iterator>::min_by_key$', it_by_key(False))

    def it_eq(I, a, b):
        xs, ys = _drain(I, a), _drain(I, b)
        if len(xs) != len(ys):
            return False
        for x, y in zip(xs, ys):
            if not I.branch(v_eq(deref(x), deref(y))):
                return False
        return True
    pat(r'^<.* as Iterator>::eq$', it_eq)

    def it_try_unsupported(I, *a):
        raise Unsupported('try_fold / try_for_each')
    pat(r'^<.* as Iterator>::try_(fold|for_each)$', it_try_unsupported)

    # ---------------- references to scalars, AsRef / Borrow, the `?` operator
    def ref_eq(I, a, b):
        return v_eq(deref(a), deref(b))
    pat(r'^<&+(mut )?(char|u8|u16|u32|u64|usize|bool) as PartialEq(<&+(mut )?\w+>)?>::eq$', ref_eq)
    pat(r'^<&+(mut )?(char|u8|u16|u32|u64|usize|bool) as PartialEq(<&+(mut )?\w+>)?>::ne$', lambda I, a, b: v_not(ref_eq(I, a, b)))
    pat(r'^<(Cow<str>|String|str|&str|Box<str>) as (AsRef|Borrow)<str>>::(as_ref|borrow)$', lambda I, s: as_str(s))
    pat(r'^<(Vec<.*>|\[.*\]) as (AsRef|Borrow)<\[.*\]>>::(as_ref|borrow)$', lambda I, v: Slice(*as_list(v)))

    def try_branch(I, x):
        if x.ty == 'Option':
            return Enum('ControlFlow', 0, [x.f[0]]) if x.v == 1 else Enum('ControlFlow', 1, [NONE()])
        if x.ty == 'Result':
            return Enum('ControlFlow', 0, [x.f[0]]) if x.v == 0 else Enum('ControlFlow', 1, [Enum('Result', 1, [x.f[0]])])
        raise Unsupported('Try::branch on ' + x.ty)
    pat(r'^<(Option|Result)<.*> as (std::ops::)?Try>::branch$', try_branch)
    pat(r'^<(Option|Result)<.*> as (std::ops::)?FromResidual(<.*>)?>::from_residual$', lambda I, r: r)

    # ---------------- Chars / CharIndices views
    def chars_as_str(I, it):
        it = deref(it)
        if hasattr(it, 'rest'):
            return it.rest()
        raise Unsupported('as_str on %r' % (type(it).__name__,))
    reg('Chars::as_str', chars_as_str)
    reg('CharIndices::as_str', chars_as_str)
    reg('std::str::Chars::as_str', chars_as_str)
    reg('std::str::CharIndices::as_str', chars_as_str)

    # ---------------- bool / Option / Result
    reg('core::bool::<impl bool>::then', lambda I, b, clo: Some(I.call_closure(Ptr([clo], 0), [])) if I.branch(b) else NONE())
    reg('core::bool::<impl bool>::then_some', lambda I, b, v: Some(v) if I.branch(b) else NONE())
    pat(r'^Option::or_else$', lambda I, o, clo: o if o.v == 1 else I.call_closure(Ptr([clo], 0), []))
    pat(r'^Option::ok_or_else$', lambda I, o, clo: Enum('Result', 0, [o.f[0]]) if o.v == 1 else
        Enum('Result', 1, [I.call_closure(Ptr([clo], 0), [])]))
    pat(r'^Option::map_or_else$', lambda I, o, d, clo: I.call_closure(Ptr([clo], 0), [o.f[0]]) if o.v == 1 else
        I.call_closure(Ptr([d], 0), []))
    pat(r'^Option::xor$', lambda I, a, b: a if (a.v == 1 and b.v == 0) else b if (b.v == 1 and a.v == 0) else NONE())
    pat(r'^Option::and$', lambda I, a, b: b if a.v == 1 else NONE())
    pat(r'^Option::is_none_or$', lambda I, o, clo: I.call_closure(Ptr([clo], 0), [o.f[0]]) if o.v == 1 else True)
    pat(r'^Option::flatten$', lambda I, o: o.f[0] if o.v == 1 else o)
    pat(r'^Option::iter$', lambda I, o: ListIt([Ptr(deref(o).f, 0)] if deref(o).v == 1 else []))

    def opt_insert(I, p, v):
        p.set(Some(v))
        return Ptr(p.get().f, 0)
    pat(r'^Option::insert$', opt_insert)

    def opt_replace(I, p, v):
        old = p.get()
        p.set(Some(v))
        return old
    pat(r'^Option::replace$', opt_replace)

    def opt_get_or_insert_with(I, p, clo):
        if p.get().v == 0:
            p.set(Some(I.call_closure(Ptr([clo], 0), [])))
        return Ptr(p.get().f, 0)
    pat(r'^Option::get_or_insert_with$', opt_get_or_insert_with)

    def opt_get_or_insert(I, p, v):
        if p.get().v == 0:
            p.set(Some(v))
        return Ptr(p.get().f, 0)
    pat(r'^Option::get_or_insert$', opt_get_or_insert)

    pat(r'^Result::map$', lambda I, r, clo: Enum('Result', 0, [I.call_closure(Ptr([clo], 0), [r.f[0]])]) if r.v == 0 else r)
    pat(r'^Result::map_err$', lambda I, r, clo: Enum('Result', 1, [I.call_closure(Ptr([clo], 0), [r.f[0]])]) if r.v == 1 else r)
    pat(r'^Result::and_then$', lambda I, r, clo: I.call_closure(Ptr([clo], 0), [r.f[0]]) if r.v == 0 else r)
    pat(r'^Result::unwrap_or$', lambda I, r, d: r.f[0] if r.v == 0 else d)
    pat(r'^Result::unwrap_or_else$', lambda I, r, clo: r.f[0] if r.v == 0 else I.call_closure(Ptr([clo], 0), [r.f[0]]))
    pat(r'^Result::err$', lambda I, r: Some(r.f[0]) if r.v == 1 else NONE())

    # ---------------- integers
    U = (1 << 64) - 1

    def clamp(I, x, lo, hi):
        if isinstance(lo, int) and isinstance(hi, int) and lo > hi:
            raise Panic('assertion failed: min <= max')
        return v_ite(v_lt(x, lo), lo, v_ite(v_lt(hi, x), hi, x))
    pat(r'^<(usize|u8|u32|u64) as Ord>::clamp$', clamp)
    pat(r'^core::cmp::Ord::clamp$', clamp)

    def sat_mul(I, a, b):
        if not is_sym(a) and not is_sym(b):
            return min(a * b, U)
        a, b = lift2(a, b)
        return z3.If(a * b > U, z3.IntVal(U), a * b)
    reg('core::num::<impl usize>::saturating_mul', sat_mul)

    def div_ceil(I, a, b):
        b = conc(I, b, 'div_ceil divisor')
        if b == 0:
            raise Panic('attempt to divide by zero')
        if not is_sym(a):
            return -(-a // b)
        return (a + (b - 1)) / b
    reg('core::num::<impl usize>::div_ceil', div_ceil)

    def checked_div(I, a, b):
        if I.branch(v_eq(b, 0)):
            return NONE()
        b = conc(I, b, 'checked_div divisor')
        return Some(a // b if not is_sym(a) else a / b)
    reg('core::num::<impl usize>::checked_div', checked_div)

    def cmp_ord(I, a, b):
        a, b = deref(a), deref(b)
        if isinstance(a, (float, SymF, SymFP)) or isinstance(b, (float, SymF, SymFP)):
            raise Unsupported('Ord::cmp on floats')
        if I.branch(v_lt(a, b)):
            return Enum('Ordering', 0, [])
        if I.branch(v_eq(a, b)):
            return Enum('Ordering', 1, [])
        return Enum('Ordering', 2, [])
    pat(r'^<(usize|u8|u32|u64|char) as Ord>::cmp$', cmp_ord)
    pat(r'^core::cmp::Ord::cmp$', cmp_ord)

    # ---------------- char / u8 case helpers
    def is_lower(I, c):
        c = deref(c)
        return v_and(v_le(ord('a'), c), v_le(c, ord('z')))

    def is_upper(I, c):
        c = deref(c)
        return v_and(v_le(ord('A'), c), v_le(c, ord('Z')))
    reg('char::methods::<impl char>::is_ascii_lowercase', is_lower)
    reg('char::methods::<impl char>::is_ascii_uppercase', is_upper)
    reg('core::num::<impl u8>::is_ascii_lowercase', is_lower)
    reg('core::num::<impl u8>::is_ascii_uppercase', is_upper)

    def is_hex(I, c):
        c = deref(c)
        return v_or(v_and(v_le(48, c), v_le(c, 57)), v_and(v_le(65, c), v_le(c, 70)), v_and(v_le(97, c), v_le(c, 102)))
    reg('char::methods::<impl char>::is_ascii_hexdigit', is_hex)
    reg('core::num::<impl u8>::is_ascii_hexdigit', is_hex)

    # ---------------- str
    def str_rsplit_once(I, s, ch):
        s = as_str(s)
        cs = s.chars()
        off = s.len()
        for cp, nb in reversed(cs):
            off -= nb
            if I.branch(v_eq(cp, ch)):
                return Some(Agg('()', [s.sub(0, off), s.sub(off + nb, s.len())]))
        return NONE()
    reg('core::str::<impl str>::rsplit_once', str_rsplit_once)

    def str_chars_rev_count_unsupported(I, *a):
        raise Unsupported('str::rsplit / splitn')
    reg('core::str::<impl str>::rsplit', str_chars_rev_count_unsupported)
    reg('core::str::<impl str>::splitn', str_chars_rev_count_unsupported)

    def str_eq_ignore(I, *a):
        raise Unsupported('eq_ignore_ascii_case')
    reg('core::str::<impl str>::eq_ignore_ascii_case', str_eq_ignore)

    def string_extend_str(I, st, it):
        st = deref(st)
        for x in _drain(I, it):
            st.chars.extend(as_str(x).chars())
    pat(r'^<String as Extend<&str>>::extend$', string_extend_str)
    pat(r'^<String as Extend<(String|Cow<.*>)>>::extend$', string_extend_str)

    def string_from_iter(I, it):
        out = OString()
        for x in _drain(I, it):
            x = deref(x)
            if isinstance(x, (Str, OString)) or (isinstance(x, Enum) and x.ty == 'Cow'):
                out.chars.extend(as_str(x).chars())
            else:
                out.chars.append((x, utf8len(x) if not is_sym(x) else utf8len(cp_class(I, x)[0])))
        return out
    pat(r'^<String as FromIterator<.*>>::from_iter$', string_from_iter)

    # ---------------- slices / Vec
    def s_get_mut(I, s, i):
        l, a, b = as_list(s)
        if I.branch(v_lt(i, b - a)):
            i = conc(I, i, 'get_mut index')
            return Some(Ptr(l, a + i))
        return NONE()
    pat(r'^core::slice::<impl \[.*\]>::get_mut$', s_get_mut)
    pat(r'^core::slice::<impl \[.*\]>::first_mut$', lambda I, s: (Some(Ptr(as_list(s)[0], as_list(s)[1]))
                                                                 if as_list(s)[2] > as_list(s)[1] else NONE()))

    def s_fill(I, s, v):
        l, a, b = as_list(s)
        for k in range(a, b):
            l[k] = copyval(v)
    pat(r'^core::slice::<impl \[.*\]>::fill$', s_fill)

    def s_iter_position_unsupported(I, *a):
        raise Unsupported('slice::split by predicate / rchunks / chunks_exact')
    pat(r'^core::slice::<impl \[.*\]>::(split|rchunks|chunks_exact|rsplit)$', s_iter_position_unsupported)

    def v_drain(I, v, r):
        from models import range_bounds
        l = deref(v).l
        a, b = range_bounds(deref(r), len(l))
        a = conc(I, a, 'drain')
        b = conc(I, b, 'drain')
        if not 0 <= a <= b <= len(l):
            raise Panic('drain range out of bounds')
        out = l[a:b]
        del l[a:b]
        return ListIt(out)
    pat(r'^Vec::drain$', v_drain)

    def v_append(I, v, w):
        deref(v).l.extend(deref(w).l)
        deref(w).l.clear()
    pat(r'^Vec::append$', v_append)
    pat(r'^Vec::first$', lambda I, v: Some(Ptr(as_list(v)[0], as_list(v)[1])) if as_list(v)[2] > as_list(v)[1] else NONE())
    pat(r'^Vec::as_slice$', lambda I, v: Slice(*as_list(v)))
    pat(r'^Vec::iter$', lambda I, v: RefIt(*as_list(v)))
    pat(r'^Vec::swap_remove$', lambda I, v, i: _swap_remove(I, v, i))

    def _swap_remove(I, v, i):
        l = deref(v).l
        i = conc(I, i, 'swap_remove')
        if not 0 <= i < len(l):
            raise Panic('swap_remove index out of bounds')
        l[i], l[-1] = l[-1], l[i]
        return l.pop()
