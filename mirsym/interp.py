"""Symbolic interpreter for rustc MIR (concrete structure, symbolic scalars).

Exploration is depth-first by re-execution with a decision prefix: every
symbolic branch is a *decision*; a path is identified by its decision list,
which makes it reproducible and lets the search be sharded over processes.
"""
import re
import time
import z3

from parse import compile_fn, Unsupported, split_top
from values import *
from quick import Quick


class FnRef:
    __slots__ = ('name',)

    def __init__(s, name):
        s.name = name


class ExtFn:
    """a function item that is not part of the dumped MIR (e.g. `char::is_whitespace` passed as a pattern)"""
    __slots__ = ('name',)

    def __init__(s, name):
        s.name = name


class PyFn:
    """a harness-provided function value (e.g. a custom word splitter)"""
    __slots__ = ('fn', 'tag')

    def __init__(s, fn, tag='pyfn'):
        s.fn = fn
        s.tag = tag


def unescape_rust(t):
    out = []
    i = 0
    n = len(t)
    while i < n:
        c = t[i]
        if c != '\\':
            out.append(c)
            i += 1
            continue
        d = t[i + 1]
        if d == 'u':
            j = t.index('}', i)
            out.append(chr(int(t[i + 3:j], 16)))
            i = j + 1
        elif d == 'x':
            out.append(chr(int(t[i + 2:i + 4], 16)))
            i += 4
        else:
            out.append({'n': '\n', 'r': '\r', 't': '\t', '\\': '\\', "'": "'", '"': '"', '0': '\0'}[d])
            i += 2
    return ''.join(out)


class Program:
    """parsed MIR of one feature set of /repo (+ smawk), with name resolution tables"""

    def __init__(self, items, srcroot, enums, features):
        self.items = items
        self.srcroot = srcroot
        self.enums = dict(enums)       # type name -> [variant names]
        self.enums.update({'Option': ['None', 'Some'], 'Result': ['Ok', 'Err'], 'Cow': ['Borrowed', 'Owned'],
                           'ControlFlow': ['Continue', 'Break'], 'Ordering': ['Less', 'Equal', 'Greater']})
        self.features = features
        self.closure_fn = {}
        self.methods = {}
        self.by_suffix = {}
        srccache = {}
        for name, f in items.items():
            if '{closure#' in name and f.argtypes:
                m = re.search(r'\{closure@[^}]*\}', f.argtypes[0])
                if m:
                    self.closure_fn[m.group(0)] = f
            m = re.match(r'^(?:[\w]+::)*<impl at ([^:>]+):(\d+):\d+: \d+:\d+>::(\w+)$', name)
            if m:
                path = m.group(1)
                try:
                    if path not in srccache:
                        fn = path if path.startswith('/') else '%s/%s' % (srcroot, path)
                        srccache[path] = open(fn).read().split('\n')
                    line = srccache[path][int(m.group(2)) - 1]
                except OSError:
                    continue
                mm = re.match(r'\s*impl(?:<[^>]*>)? (?:([\w:]+)(?:<[^>]*>)? for )?(\w+)', line)
                if not mm:
                    continue
                tr, ty = mm.group(1), mm.group(2)
                if tr:
                    tr = tr.split('::')[-1]
                    self.methods['<%s as %s>::%s' % (ty, tr, m.group(3))] = name
                else:
                    self.methods['%s::%s' % (ty, m.group(3))] = name
        for name in items:
            parts = name.split('::')
            for k in range(len(parts)):
                self.by_suffix.setdefault('::'.join(parts[k:]), name)

    def variant_index(self, ty, var):
        vs = self.enums.get(ty)
        if vs is None or var not in vs:
            raise Unsupported('unknown enum variant %s::%s' % (ty, var))
        return vs.index(var)


_TURBO = re.compile(r'::<')


def normalize(callee):
    """drop turbofish groups (::<..>) except `::<impl ...>`, and lifetimes"""
    out = []
    i = 0
    n = len(callee)
    while i < n:
        if callee.startswith('::<', i) and not callee.startswith('::<impl', i):
            d = 0
            j = i + 2
            while True:
                c = callee[j]
                if c == '<':
                    d += 1
                elif c == '>' and callee[j - 1] != '-':
                    d -= 1
                    if d == 0:
                        break
                j += 1
            i = j + 1
            continue
        out.append(callee[i])
        i += 1
    r = ''.join(out)
    r = re.sub(r"'[A-Za-z_]\w*(?!')(, | )?", '', r)
    r = r.replace('<>', '')
    return r


class Stats:
    def __init__(s):
        s.paths = 0
        s.blocks = 0
        s.decisions = 0
        s.solver_calls = 0
        s.solver_s = 0.0
        s.obligations = 0
        s.discharged = 0
        s.panics = 0
        s.cut = 0
        s.infeasible = 0
        s.completed = 0
        s.discharged_quick = 0
        s.retries = 0
        s.fns = set()

    def merge(s, o):
        for k in ('paths', 'blocks', 'decisions', 'solver_calls', 'solver_s', 'obligations', 'discharged', 'panics',
                  'cut', 'infeasible', 'completed', 'discharged_quick', 'retries'):
            setattr(s, k, getattr(s, k) + getattr(o, k))
        s.fns |= o.fns

    def as_dict(s):
        d = {k: getattr(s, k) for k in ('paths', 'blocks', 'decisions', 'solver_calls', 'obligations', 'discharged',
                                        'panics', 'cut', 'infeasible', 'completed', 'discharged_quick')}
        d['solver_s'] = round(s.solver_s, 2)
        return d


class Violation:
    def __init__(s, clause, msg, model_case, decisions):
        s.clause = clause
        s.msg = msg
        s.case = model_case
        s.decisions = decisions


class Interp:
    def __init__(self, prog, models=None):
        self.prog = prog
        self.items = prog.items
        self.resolved = {}
        self.const_cache = {}
        self.stats = Stats()
        self.models = models
        self.concrete = False       # concrete mode: no solver at all
        self._upvars = {}
        self.cur_stmt = None
        self.float_mode = 'exact'   # 'exact' (SymF) | 'fp' (z3 Float64)
        self.max_blocks = 2_000_000
        self.native = None
        self.int_enum_limit = 64
        import os as _os
        self.query_timeout_ms = int(_os.environ.get('VERIF_QTO_MS', '30000'))
        self._alt_model = None
        self.quick = Quick(self)
        self.reset_path([])
        self.on_violation = None
        self.f2i_cache = {}

    # ------------------------------------------------------------ path state
    def reset_path(self, prefix):
        self.prefix = list(prefix)
        self.trace = []
        self.alts = []
        self.solver = None if self.concrete else z3.Solver()
        if self.solver is not None:
            self.solver.set('timeout', self.query_timeout_ms)
        self.model = None
        self.model_valid = False
        self.path_blocks = 0
        self.fresh_id = 0
        self.f2i_cache = {}
        self.violations = []
        self.assumed = []
        self.cp_range = {}
        self.int_range = {}
        self.decided = {}
        self.keepalive = []
        self.inputs = None
        self.quick.reset()

    def replaying(self):
        return len(self.trace) < len(self.prefix)

    def add(self, c):
        """add a constraint to the path condition"""
        if isinstance(c, bool):
            if not c:
                raise Infeasible()
            return
        self.solver.add(c)
        if self.model_valid:
            try:
                if not z3.is_true(self.model.eval(c, model_completion=True)):
                    self.model_valid = False
            except z3.Z3Exception:
                self.model_valid = False

    def assume(self, c):
        """harness-level assumption (input space); recorded"""
        self.add(c)

    def _model(self):
        return self._alt_model if self._alt_model is not None else self.solver.model()

    def _check(self, *extra):
        self._alt_model = None
        t0 = time.time()
        r = self.solver.check(*extra)
        self.stats.solver_calls += 1
        self.stats.solver_s += time.time() - t0
        if r == z3.unknown:
            r = self._retry_unknown(extra)
            if r is None:
                raise Unsupported('solver returned unknown: ' + self.solver.reason_unknown())
        return r == z3.sat

    def _retry_unknown(self, extra):
        """the default solver gave up (typically nonlinear integer cost arithmetic): retry the same query with other
        configurations; still unknown -> None (inconclusive, never counted as success)"""
        import os
        d = os.environ.get('VERIF_DUMP_UNKNOWN')
        if d:
            os.makedirs(d, exist_ok=True)
            s2 = z3.Solver()
            s2.add(self.solver.assertions())
            for e in extra:
                s2.add(e)
            with open(os.path.join(d, 'q%d_%d.smt2' % (os.getpid(), self.stats.solver_calls)), 'w') as f:
                f.write(s2.to_smt2())
        for mk in (lambda: z3.SolverFor('QF_NIA'),
                   lambda: z3.Then('simplify', 'propagate-values', 'solve-eqs', 'nla2bv', 'smt').solver()):
            try:
                s2 = mk()
                s2.set('timeout', self.query_timeout_ms * 2)
                s2.add(self.solver.assertions())
                for e in extra:
                    s2.add(e)
                t0 = time.time()
                r = s2.check()
                self.stats.solver_calls += 1
                self.stats.solver_s += time.time() - t0
                self.stats.retries += 1
                if r != z3.unknown:
                    self._alt_model = s2.model() if r == z3.sat else None
                    return r
            except z3.Z3Exception:
                continue
        return None

    def get_model(self):
        if not self.model_valid:
            if not self._check():
                raise Infeasible()
            self.model = self._model()
            self.model_valid = True
        return self.model

    def fresh(self, name, sort='int'):
        self.fresh_id += 1
        n = '%s!%d' % (name, self.fresh_id)
        if sort == 'int':
            return z3.Int(n)
        if sort == 'bool':
            return z3.Bool(n)
        return z3.BitVec(n, sort)

    # ------------------------------------------------------------ decisions
    def branch(self, c):
        """decide a condition; forks when both sides are feasible"""
        if isinstance(c, bool):
            return c
        if not is_sym(c):
            return bool(c)
        q = self.quick.tri(c)
        if q is not None:
            return q
        c = z3.simplify(c)
        if z3.is_true(c):
            return True
        if z3.is_false(c):
            return False
        if self.concrete:
            raise Unsupported('symbolic condition in concrete mode')
        # conditions already decided on this path (the same comparison is often repeated by different functions)
        cid = c.get_id()
        hit = self.decided.get(cid)
        if hit is not None:
            return hit
        if z3.is_not(c):
            hit = self.decided.get(c.arg(0).get_id())
            if hit is not None:
                return not hit
        d = self._branch(c)
        self.decided[cid] = d
        self.keepalive.append(c)
        return d

    def _branch(self, c):
        k = len(self.trace)
        if k < len(self.prefix):
            d = self.prefix[k]
            self.trace.append(d)
            self.solver.add(c if d else z3.Not(c))
            self.model_valid = False
            return bool(d)
        self.stats.decisions += 1
        m = self.get_model()
        mv = m.eval(c, model_completion=True)
        d = z3.is_true(mv)
        if not d and not z3.is_false(mv):
            # model could not decide: ask the solver for the true side
            d = self._check(c)
            if d:
                self.model = self._model()
            else:
                self.trace.append(0)
                self.solver.add(z3.Not(c))
                return False
        other = z3.Not(c) if d else c
        if self._check(other):
            self.alts.append(self.trace + [0 if d else 1])
        self.trace.append(1 if d else 0)
        self.solver.add(c if d else z3.Not(c))
        return d

    def choose(self, n, label=''):
        """n-way structural fork (no solver): returns an index 0..n-1; all alternatives are explored"""
        if n == 1:
            return 0
        k = len(self.trace)
        if k < len(self.prefix):
            d = self.prefix[k]
            self.trace.append(d)
            return d
        for alt in range(n - 1, 0, -1):
            self.alts.append(self.trace + [alt])
        self.trace.append(0)
        return 0

    def enumerate_int(self, n, what='value', limit=None):
        """make a symbolic integer that sizes a structure concrete by forking over 0..limit (stated bound)"""
        if not is_sym(n):
            return n
        limit = self.int_enum_limit if limit is None else limit
        for v in range(limit + 1):
            if self.branch(n == v):
                return v
        raise OutOfBounds('%s above enumeration limit %d' % (what, limit))

    def sym_char(self, name, lo, hi, exclude=()):
        """fresh symbolic code point in [lo, hi] (one UTF-8 length class), minus surrogates"""
        c = z3.BitVec(name, 32)
        self.add(z3.And(z3.UGE(c, lo), z3.ULE(c, hi)))
        if lo <= 0xD800 and hi >= 0xDFFF:
            self.add(z3.Or(z3.ULT(c, 0xD800), z3.UGT(c, 0xDFFF)))
        for x in exclude:
            self.add(c != x)
        self.cp_range[c.get_id()] = (lo, hi)
        self.keepalive.append(c)
        return c

    def sym_int(self, name, lo=0, hi=U64):
        v = z3.Int(name)
        self.add(z3.And(v >= lo, v <= hi))
        self.int_range[v.get_id()] = (lo, hi)
        self.keepalive.append(v)
        return v

    def mir_assert(self, c, msg):
        if self.branch(c):
            return
        raise Panic(msg)

    # ------------------------------------------------------------ oracle obligations
    def check(self, cond, clause, msg=''):
        """property obligation: `cond` must hold for every value on this path.
        If the solver finds values falsifying it, a violation is recorded; the path continues under `cond`."""
        rep = self.replaying()
        if not rep:
            self.stats.obligations += 1
        if isinstance(cond, bool) or not is_sym(cond):
            if cond:
                if not rep:
                    self.stats.discharged += 1
                return True
            if not rep:
                self._violate(clause, msg)
            raise Infeasible()
        if self.quick.tri(cond) is True:
            if not rep:
                self.stats.discharged += 1
                self.stats.discharged_quick += 1
            return True
        cond = z3.simplify(cond)
        if z3.is_true(cond):
            if not rep:
                self.stats.discharged += 1
                self.stats.discharged_quick += 1
            return True
        if rep:
            self.solver.add(cond)
            self.model_valid = False
            return True
        m = self.get_model()
        bad = z3.is_false(m.eval(cond, model_completion=True))
        if not bad:
            if self._check(z3.Not(cond)):
                bad = True
                self.model = self._model()
                self.model_valid = True
        if bad:
            self._violate(clause, msg)
            self.model_valid = False
            self.solver.add(cond)
            if not self._check():
                raise Infeasible()
            self.model = self._model()
            self.model_valid = True
            return False
        self.stats.discharged += 1
        self.solver.add(cond)
        return True

    def _violate(self, clause, msg):
        case = None
        if self.on_violation is not None:
            case = self.on_violation(self, clause, msg)
        self.violations.append(Violation(clause, msg, case, list(self.trace)))

    # ------------------------------------------------------------ exact f64 helpers
    def int_to_float(self, v):
        if isinstance(v, int):
            if self.float_mode == 'fp':
                return float(v)
            return float(v) if v < TWO53 else float(v)
        if self.float_mode == 'fp':
            raise Unsupported('symbolic IntToFloat in fp mode (use SymFP inputs)')
        key = v.get_id()
        if key in self.f2i_cache:
            return self.f2i_cache[key]
        # monotone rounding: exact below 2^53, otherwise some value >= 2^53
        f = self.fresh('i2f')
        self.add(z3.If(v <= TWO53, f == v, f >= TWO53))
        r = SymF(f)
        self.f2i_cache[key] = r
        return r

    def exact_guard(self, e):
        """result of exact-rational arithmetic must stay exactly representable (|e| <= 2^53), else the path
        leaves the encoding's bound: it is cut and counted"""
        if isinstance(e, int):
            if abs(e) > TWO53:
                raise OutOfBounds('f64 magnitude')
            return
        ok = z3.And(e <= TWO53, e >= -TWO53)
        if not self.branch(ok):
            raise OutOfBounds('f64 magnitude')

    # ------------------------------------------------------------ execution
    def run(self, fname, args):
        f = self.items.get(fname)
        if f is None:
            f = self.items.get(self.prog.by_suffix.get(fname, ''), None)
        if f is None and fname in self.prog.methods:
            f = self.items[self.prog.methods[fname]]
        if f is None:
            raise Unsupported('no MIR item ' + fname)
        return self.exec_fn(f, args)

    def call_closure(self, clo, args):
        clo_v = deref(clo)
        if isinstance(clo_v, PyFn):
            return clo_v.fn(self, *args)
        if isinstance(clo_v, FnRef):
            return self.run(clo_v.name, list(args))
        if isinstance(clo_v, ExtFn):
            return self.call(clo_v.name, list(args))
        f = self.prog.closure_fn.get(clo_v.name)
        if f is None:
            raise Unsupported('closure body not found: %r' % (clo_v.name,))
        if f.argtypes[0].startswith('&'):
            a0 = clo if isinstance(clo, Ptr) else Ptr([clo_v], 0)
        else:
            a0 = clo_v
        return self.exec_fn(f, [a0] + list(args))

    def iter_next(self, it):
        pit = it
        it = deref(it)
        if isinstance(it, Agg):
            if it.name.endswith('Range'):
                a, b = it.f
                if is_sym(a) or is_sym(b):
                    raise Unsupported('symbolic range iteration')
                if a < b:
                    it.f[0] = a + 1
                    return Some(a)
                return NONE()
            key = '<%s as Iterator>::next' % it.name
            if key in self.prog.methods:
                p = pit if isinstance(pit, Ptr) else Ptr([it], 0)
                return self.exec_fn(self.items[self.prog.methods[key]], [p])
            raise Unsupported('iter_next on ' + it.name)
        return it.next(self)

    def exec_fn(self, f, args):
        compile_fn(f)
        self.stats.fns.add(f.name)
        L = {0: None}
        for i, a in enumerate(args):
            L[i + 1] = a
        return self.exec_blocks(f, L, 0, None)

    def exec_blocks(self, f, L, bb, stop_at):
        """execute from block `bb` with locals L; with stop_at (a set of block ids) execution stops when control
        is about to re-enter one of them (kernel mode: one loop iteration) and ('stopped', bb) is returned"""
        compile_fn(f)
        self.stats.fns.add(f.name)
        blocks = f.blocks
        first = True
        while True:
            if stop_at is not None and not first and bb in stop_at:
                return ('stopped', bb)
            first = False
            stmts, term, raw = blocks[bb]
            self.stats.blocks += 1
            self.path_blocks += 1
            if self.path_blocks > self.max_blocks:
                raise Unsupported('block budget exceeded (possible non-termination) in ' + f.name)
            for st in stmts:
                self.exec_stmt(f, L, st, term)
            k = term[0]
            if k == 'goto':
                bb = term[1]
            elif k == 'return':
                return L[0] if stop_at is None else ('returned', L[0])
            elif k == 'call':
                _, dest, callee, aops, nb = term
                argv = [self.operand(f, L, a) for a in aops]
                r = self.call(callee, argv)
                if nb is None:
                    raise Panic('diverging call returned: ' + callee)
                self.place(f, L, dest).set(r)
                bb = nb
            elif k == 'switch':
                v = self.operand(f, L, term[1])
                nxt = None
                if isinstance(v, bool):
                    v = int(v)
                if isinstance(v, int):
                    for kv, b in term[2]:
                        if v == kv:
                            nxt = b
                            break
                    else:
                        nxt = term[3]
                else:
                    for kv, b in term[2]:
                        if z3.is_bool(v):
                            cond = v if kv == 1 else z3.Not(v)
                        else:
                            cond = v_eq(v, kv)
                        if self.branch(cond):
                            nxt = b
                            break
                    else:
                        nxt = term[3]
                if nxt is None:
                    raise Panic('switchInt without target (unreachable)')
                bb = nxt
            elif k == 'assert':
                _, neg, op, msg, nb = term
                v = self.operand(f, L, op)
                if neg:
                    v = v_not(v)
                self.mir_assert(v, msg)
                bb = nb
            elif k == 'drop':
                self.do_drop(self.place(f, L, term[1]))
                bb = term[2]
            elif k == 'callptr':
                _, dest, cop, aops, nb = term
                fn = self.operand(f, L, cop)
                argv = [self.operand(f, L, a) for a in aops]
                r = self.call_closure(fn, argv)
                self.place(f, L, dest).set(r)
                bb = nb
            elif k == 'unreachable':
                raise Panic('reached `unreachable`')
            else:
                raise Unsupported('terminator ' + k)

    def do_drop(self, ptr):
        try:
            v = ptr.get()
        except (KeyError, IndexError):
            return
        if isinstance(v, Agg) and v.name in ('Ref', 'RefMut'):
            cell = v.f[0]
            if v.name == 'Ref':
                cell.f[1] -= 1
            else:
                cell.f[1] = 0

    # ------------------------------------------------------------ calls
    def call(self, callee, argv):
        h = self.resolved.get(callee)
        if h is None:
            h = self.resolve(callee)
            self.resolved[callee] = h
        return h(self, *argv)

    def resolve(self, callee):
        n = normalize(callee)
        if self.models is not None:
            h = self.models.lookup(self, callee, n)
            if h is not None:
                return h
        f = self.items.get(n) or self.items.get(callee)
        if f is None and n in self.prog.methods:
            f = self.items[self.prog.methods[n]]
        if f is None and n in self.prog.by_suffix:
            f = self.items[self.prog.by_suffix[n]]
        if f is not None:
            return lambda I, *a, _f=f: I.exec_fn(_f, list(a))
        if self.models is not None:
            h = self.models.lookup_suffix(n)
            if h is not None:
                return h
        m = re.match(r'^<&*(\w+) as PartialEq>::(eq|ne)$', n)
        if m and (m.group(1) in self.prog.enums):
            # #[derive(PartialEq)] on a field-less enum of the crate (the derived impl has no source header to map its
            # MIR item by): equality of discriminants
            neg = m.group(2) == 'ne'

            def enum_eq(I, a, b, _neg=neg):
                a, b = deref(a), deref(b)
                if not (isinstance(a, Enum) and isinstance(b, Enum)) or a.f or b.f:
                    raise Unsupported('derived PartialEq on an enum with fields')
                return (a.v != b.v) if _neg else (a.v == b.v)
            return enum_eq
        raise Unsupported('call to unknown function: %s   [%s]' % (n, callee))

    # ------------------------------------------------------------ places
    def place(self, f, L, pl):
        local, projs = pl
        ptr = Ptr(L, local)
        for pr in projs:
            k = pr[0]
            if k == 'deref':
                v = ptr.get()
                if isinstance(v, Ptr):
                    ptr = v
                else:
                    ptr = Ptr([v], 0)   # fat references (Str, Slice) and boxes deref to themselves
            elif k == 'field':
                v = ptr.get()
                if isinstance(v, (Agg, Enum)):
                    ptr = Ptr(v.f, pr[1])
                elif isinstance(v, Str) and False:
                    pass
                else:
                    raise Unsupported('field projection on %r in %s' % (type(v).__name__, f.name))
            elif k == 'downcast':
                pass
            elif k == 'index':
                ix = L[pr[1]]
                if is_sym(ix):
                    raise Unsupported('symbolic index')
                v = ptr.get()
                if isinstance(v, Slice):
                    if not 0 <= ix < len(v):
                        raise Panic('index out of bounds')
                    ptr = Ptr(v.l, v.a + ix)
                elif isinstance(v, RVec):
                    if not 0 <= ix < len(v.l):
                        raise Panic('index out of bounds')
                    ptr = Ptr(v.l, ix)
                elif isinstance(v, Agg):
                    ptr = Ptr(v.f, ix)
                else:
                    raise Unsupported('index projection on %r' % (type(v).__name__,))
            elif k == 'constindex':
                v = ptr.get()
                l, a, b = self.models.as_list(v)
                i = (b - pr[1]) if pr[2] else (a + pr[1])
                ptr = Ptr(l, i)
            elif k == 'subslice':
                v = ptr.get()
                l, a, b = self.models.as_list(v)
                lo = a + pr[1]
                hi = (b - pr[2]) if pr[3] else (a + pr[2])
                if not a <= lo <= hi <= b:
                    raise Panic('subslice pattern out of range')
                ptr = Ptr([Slice(l, lo, hi)], 0)
            else:
                raise Unsupported('projection ' + k)
        return ptr

    def operand(self, f, L, o):
        k = o[0]
        if k == 'move':
            return self.place(f, L, o[1]).get()
        if k == 'copy':
            v = self.place(f, L, o[1]).get()
            return copyval(v) if isinstance(v, (Agg, Enum)) else v
        return self.const(o[1])

    def const(self, c):
        if c in self.const_cache:
            v = self.const_cache[c]
            return copyval(v) if isinstance(v, (Agg, Enum)) else v
        v = self._const(c)
        if isinstance(v, (int, bool, float, Str, FnRef)):
            self.const_cache[c] = v
        return v

    def _const(self, c):
        m = re.match(r'^(-?\d+)_(u|i)(size|\d+)$', c)
        if m:
            return int(m.group(1))
        if c == 'true':
            return True
        if c == 'false':
            return False
        if c == '()':
            return Agg('()', [])
        if c.startswith("'") and c.endswith("'"):
            return ord(unescape_rust(c[1:-1]))
        if c.startswith('"') and c.endswith('"'):
            return mkstr(unescape_rust(c[1:-1]))
        if c.startswith('b"') and c.endswith('"'):
            raw = unescape_rust(c[2:-1])
            bs = [ord(ch) for ch in raw]
            if any(b > 0xff for b in bs):
                raise Unsupported('byte string constant ' + c)
            return Slice(bs, 0, len(bs))
        m = re.match(r'^([+-]?(?:\d+(?:\.\d+)?(?:[eE][+-]?\d+)?|inf|NaN))f64$', c)
        if m:
            return float(m.group(1).replace('NaN', 'nan'))
        m = re.match(r'^ZeroSized: (\{closure@[^}]*\})$', c)
        if m:
            return Agg(m.group(1), [])
        n = normalize(c)
        if n in ('OverflowError',):
            return Agg(n, [])
        if re.match(r'^(std::option::|core::option::)?Option::None$', n):
            return NONE()
        f = self.items.get(n)
        if f is None and n in self.prog.by_suffix:
            f = self.items[self.prog.by_suffix[n]]
        if f is None:
            # strip leading module path segments
            parts = n.split('::')
            for k in range(1, len(parts)):
                s = '::'.join(parts[k:])
                if s in self.items:
                    f = self.items[s]
                    break
                if s in self.prog.by_suffix:
                    f = self.items[self.prog.by_suffix[s]]
                    break
        if f is not None:
            if f.kind == 'fn':
                return FnRef(f.name)
            return self.exec_fn(f, [])
        if self.models is not None and self.models.lookup(self, c, n) is not None:
            return ExtFn(c)
        raise Unsupported('const ' + c)

    # ------------------------------------------------------------ statements
    def closure_upvars(self, name):
        """number of captured places the closure body reads (highest `_1.K` field + 1)"""
        c = self._upvars.get(name)
        if c is None:
            cf = self.prog.closure_fn.get(name)
            c = 0
            if cf is not None:
                txt = '\n'.join('\n'.join(r) for r in cf.raw.values())
                ks = [int(x) for x in re.findall(r'\(\(?\*?_1\)?\.(\d+): ', txt)]
                c = max(ks) + 1 if ks else 0
            self._upvars[name] = c
        return c

    def exec_stmt(self, f, L, st, term):
        k = st[0]
        if k == 'assign':
            self.cur_stmt = st
            v = self.rvalue(f, L, st[2], st[3], term)
            local, projs = st[1]
            if not projs:
                L[local] = v
            else:
                self.place(f, L, st[1]).set(v)
        elif k == 'setdiscr':
            p = self.place(f, L, st[1])
            p.get().v = st[2]
        elif k == 'assume':
            v = self.operand(f, L, st[1])
            if not self.branch(v):
                raise Infeasible()
        else:
            raise Unsupported('statement ' + k)

    def lhs_type(self, f, lhs):
        m = re.match(r'^_(\d+)$', lhs)
        if m:
            return f.locals.get(int(m.group(1)), '?')
        m = re.search(r': ([^()]*)\)$', lhs)
        return m.group(1) if m else '?'

    def rvalue(self, f, L, r, lhs, term):
        k = r[0]
        if k == 'use':
            return self.operand(f, L, r[1])
        if k == 'ref':
            ptr = self.place(f, L, r[1])
            projs = r[1][1]
            if projs and projs[-1][0] in ('deref', 'subslice'):
                # reborrow of an unsized place (str / [T]): the fat reference is its own value
                try:
                    v = ptr.get()
                except (KeyError, IndexError):
                    return ptr
                if isinstance(v, (Str, Slice)):
                    return v
            return ptr
        if k == 'binop':
            x = self.operand(f, L, r[2])
            y = self.operand(f, L, r[3])
            return self.binop(r[1], x, y, self.lhs_type(f, lhs), term)
        if k == 'unop':
            x = self.operand(f, L, r[2])
            op = r[1]
            if op == 'Not':
                if isinstance(x, bool):
                    return not x
                if isinstance(x, int):
                    b = bits_of(self.lhs_type(f, lhs)) or 64
                    return (~x) & ((1 << b) - 1)
                return z3.Not(x)
            if op == 'PtrMetadata':
                d = deref(x) if not isinstance(x, (Str, Slice)) else x
                if isinstance(d, Str):
                    return d.len()
                if hasattr(d, 'abs_len'):
                    return d.abs_len()
                l, a, b = self.models.as_list(d)
                return b - a
            if op == 'Neg':
                if isinstance(x, float):
                    return -x
                if isinstance(x, SymF):
                    return SymF(-x.e, x.den)
                if isinstance(x, SymFP):
                    return SymFP(z3.fpNeg(x.t))
            raise Unsupported('unop ' + op)
        if k == 'discr':
            v = self.place(f, L, r[1]).get()
            v = deref(v) if isinstance(v, Ptr) else v
            if not isinstance(v, Enum):
                raise Unsupported('discriminant of %r' % (v,))
            return v.v
        if k == 'tuple':
            return Agg('()', [self.operand(f, L, x) for x in r[1]])
        if k == 'array':
            return Agg('[]', [self.operand(f, L, x) for x in r[1]])
        if k == 'repeat':
            v = self.operand(f, L, r[1])
            n = int(re.match(r'\d+', r[2].replace('const ', '')).group(0))
            return Agg('[]', [copyval(v) for _ in range(n)])
        if k == 'closure':
            fields = [self.operand(f, L, x) for _, x in r[2]]
            need = self.closure_upvars(r[1])
            if need > len(fields):
                extra = self.cur_stmt[4] if self.cur_stmt is not None and len(self.cur_stmt) > 4 else []
                missing = need - len(fields)
                if len(extra) < missing:
                    raise Unsupported('closure aggregate printed with %d of %d captured places and the rest cannot be '
                                      'recovered from the MIR text: %s' % (len(fields), need, r[1]))
                fields += [self.operand(f, L, x) for x in extra[-missing:]]
            return Agg(r[1], fields)
        if k == 'struct':
            name = normalize(r[1]).split('::')[-1]
            return Agg(name, [self.operand(f, L, x) for _, x in r[2]])
        if k == 'ctor':
            head = normalize(r[1])
            parts = head.split('::')
            args = [self.operand(f, L, x) for x in r[2]]
            if len(parts) >= 2 and parts[-2] in self.prog.enums and parts[-1] in self.prog.enums[parts[-2]]:
                return Enum(parts[-2], self.prog.enums[parts[-2]].index(parts[-1]), args)
            if len(parts) >= 2 and parts[-2] in ('Option', 'Result', 'Cow'):
                raise Unsupported('enum ctor ' + r[1])
            # tuple struct ctor (e.g. NonEmptyLines(x)) or unit struct
            return Agg(parts[-1], args)
        if k == 'cast':
            v = self.operand(f, L, r[1])
            kind = r[3]
            if kind in ('Transmute', 'PtrToPtr'):
                return v
            if kind.startswith('PointerCoercion'):
                if 'Unsize' in kind:
                    d = v if isinstance(v, (Str, Slice)) else deref(v)
                    if isinstance(d, Agg) and d.name == '[]':
                        return Slice(d.f, 0, len(d.f))
                return v
            if kind == 'IntToFloat':
                if isinstance(v, bool):
                    v = int(v)
                if isinstance(v, int):
                    return float(v)
                return self.int_to_float(v)
            if kind == 'IntToInt':
                to = r[2]
                if isinstance(v, bool):
                    return int(v)
                if isinstance(v, int):
                    b = bits_of(to) or 64
                    return v & ((1 << b) - 1)
                if z3.is_bool(v):
                    return z3.If(v, z3.IntVal(1), z3.IntVal(0))
                if z3.is_bv(v) and to in ('usize', 'u64', 'u32'):
                    return z3.BV2Int(v, False) if to != 'u32' else v
                if z3.is_bv(v) and to in ('u8', 'u16'):
                    # truncation; scalar bit-vectors stay 32 bits wide
                    return v & z3.BitVecVal(0xFF if to == 'u8' else 0xFFFF, v.size())
                if z3.is_bv(v) and to == 'char':
                    return v
                if z3.is_int(v) and to in ('usize', 'u64', 'isize', 'i64', 'u128'):
                    return v
                if z3.is_int(v) and to in ('u32', 'u16', 'u8'):
                    return v % (1 << bits_of(to))      # truncating cast of a non-negative integer
                raise Unsupported('IntToInt cast of symbolic value to ' + to)
            raise Unsupported('cast kind ' + kind)
        if k == 'len':
            v = self.place(f, L, r[1]).get()
            l, a, b = self.models.as_list(v)
            return b - a
        raise Unsupported('rvalue ' + k)

    # ------------------------------------------------------------ arithmetic
    def binop(self, op, x, y, ty, term=None):
        if isinstance(x, (float, SymF, SymFP)) or isinstance(y, (float, SymF, SymFP)) or ty == 'f64':
            return self.fbinop(op, x, y)
        if isinstance(x, MByte) or isinstance(y, MByte):
            return self.mbyte_cmp(op, x, y)
        sym = is_sym(x) or is_sym(y)
        if op in ('Eq', 'Ne', 'Lt', 'Le', 'Gt', 'Ge'):
            if isinstance(x, (Agg, Enum)) or isinstance(y, (Agg, Enum)):
                raise Unsupported('comparison of aggregates')
            if op == 'Eq':
                return v_eq(x, y)
            if op == 'Ne':
                return v_ne(x, y)
            if op == 'Lt':
                return v_lt(x, y)
            if op == 'Le':
                return v_le(x, y)
            if op == 'Gt':
                return v_lt(y, x)
            return v_le(y, x)
        bits = bits_of(ty.split(',')[0].strip('() ')) if ty else None
        if bits is None:
            bits = 64
        MAXV = (1 << bits) - 1
        if op in ('AddWithOverflow', 'SubWithOverflow', 'MulWithOverflow'):
            if term is not None and term[0] != 'assert':
                raise Unsupported('checked arithmetic not followed by an assert')
            if not sym:
                r = x + y if op[0] == 'A' else x - y if op[0] == 'S' else x * y
                return Agg('()', [r & MAXV, r < 0 or r > MAXV])
            x, y = lift2(x, y)
            if z3.is_bv(x):
                raise Unsupported('checked arithmetic on bit-vector (char) values')
            if op[0] == 'A':
                return Agg('()', [x + y, x + y > MAXV])
            if op[0] == 'S':
                return Agg('()', [x - y, x < y])
            return Agg('()', [x * y, x * y > MAXV])
        if op in ('Add', 'Sub', 'Mul', 'AddUnchecked', 'SubUnchecked', 'MulUnchecked'):
            if not sym:
                r = x + y if op[0] == 'A' else x - y if op[0] == 'S' else x * y
                return r & MAXV
            x, y = lift2(x, y)
            if z3.is_bv(x):
                return x + y if op[0] == 'A' else x - y if op[0] == 'S' else x * y
            r = x + y if op[0] == 'A' else x - y if op[0] == 'S' else x * y
            if op.endswith('Unchecked'):
                return r
            M = MAXV + 1
            if op[0] == 'A':
                return z3.If(r > MAXV, r - M, r)
            if op[0] == 'S':
                return z3.If(r < 0, r + M, r)
            return r % M
        if op in ('Div', 'Rem'):
            if not sym:
                if y == 0:
                    raise Panic('division by zero')
                return x // y if op == 'Div' else x % y
            x, y = lift2(x, y)
            if z3.is_bv(x):
                return z3.UDiv(x, y) if op == 'Div' else z3.URem(x, y)
            return x / y if op == 'Div' else x % y
        if op in ('BitAnd', 'BitOr', 'BitXor'):
            if not sym:
                if isinstance(x, bool) and isinstance(y, bool):
                    return {'BitAnd': x and y, 'BitOr': x or y, 'BitXor': x != y}[op]
                return {'BitAnd': x & y, 'BitOr': x | y, 'BitXor': x ^ y}[op]
            x, y = lift2(x, y)
            if z3.is_bool(x):
                return {'BitAnd': z3.And(x, y), 'BitOr': z3.Or(x, y), 'BitXor': z3.Xor(x, y)}[op]
            if z3.is_bv(x):
                return {'BitAnd': x & y, 'BitOr': x | y, 'BitXor': x ^ y}[op]
            raise Unsupported('bit operation on symbolic integer')
        if op in ('Shl', 'Shr', 'ShlUnchecked', 'ShrUnchecked') and not sym:
            return ((x << y) & MAXV) if op.startswith('Shl') else (x >> y)
        raise Unsupported('binop %s (symbolic=%s)' % (op, sym))

    def mbyte_cmp(self, op, x, y):
        """comparisons on bytes of multi-byte characters: decided structurally against ASCII constants (such a byte
        is >= 0x80), otherwise on the UTF-8 byte value as a term of the code point"""
        if op in ('Eq', 'Ne'):
            other = y if isinstance(x, MByte) else x
            if isinstance(other, int) and other < 0x80:
                return op == 'Ne'
        xv = x.value() if isinstance(x, MByte) else x
        yv = y.value() if isinstance(y, MByte) else y
        if isinstance(xv, MByte) or isinstance(yv, MByte):
            raise Unsupported('comparison involving a multi-byte character byte')
        return self.binop(op, xv, yv, 'u8')

    # ---- f64
    def to_f(self, v):
        if isinstance(v, (SymF, SymFP)):
            return v
        if isinstance(v, (int, float)) and not isinstance(v, bool):
            if self.float_mode == 'fp':
                return SymFP(z3.FPVal(float(v), z3.Float64()))
            if v != v or v in (float('inf'), float('-inf')):
                raise Unsupported('non-finite float in exact mode')
            if float(v) != int(v):
                # exact rational for concrete fractions
                from fractions import Fraction
                fr = Fraction(v)
                return SymF(z3.IntVal(fr.numerator), fr.denominator)
            return SymF(z3.IntVal(int(v)))
        raise Unsupported('float operand %r' % (v,))

    def fbinop(self, op, x, y):
        if isinstance(x, float) and isinstance(y, float):
            if op == 'Add':
                return x + y
            if op == 'Sub':
                return x - y
            if op == 'Mul':
                return x * y
            if op == 'Div':
                if y == 0.0:
                    if x == 0.0 or x != x:
                        return float('nan')
                    import math
                    neg = (math.copysign(1.0, x) * math.copysign(1.0, y)) < 0
                    return float('-inf') if neg else float('inf')
                return x / y
            return {'Eq': x == y, 'Ne': x != y, 'Lt': x < y, 'Le': x <= y, 'Gt': x > y, 'Ge': x >= y}[op]
        if self.float_mode != 'fp':
            # exact mode with one non-finite concrete operand: only comparisons are meaningful
            for a, b, flip in ((x, y, False), (y, x, True)):
                if isinstance(a, float) and (a != a or a in (float('inf'), float('-inf'))):
                    if op in ('Add', 'Sub', 'Mul', 'Div'):
                        raise Unsupported('exact-f64: arithmetic on a non-finite value')
                    if a != a:
                        return op == 'Ne'
                    big = a > 0
                    o = op if not flip else {'Lt': 'Gt', 'Le': 'Ge', 'Gt': 'Lt', 'Ge': 'Le', 'Eq': 'Eq', 'Ne': 'Ne'}[op]
                    # a (infinite) o b (finite)
                    return {'Lt': not big, 'Le': not big, 'Gt': big, 'Ge': big, 'Eq': False, 'Ne': True}[o]
        X, Y = self.to_f(x), self.to_f(y)
        if isinstance(X, SymFP) or isinstance(Y, SymFP):
            if isinstance(X, SymF) or isinstance(Y, SymF):
                raise Unsupported('mixed float encodings')
            a, b = X.t, Y.t
            rm = z3.RNE()
            if op == 'Add':
                return SymFP(z3.fpAdd(rm, a, b))
            if op == 'Sub':
                return SymFP(z3.fpSub(rm, a, b))
            if op == 'Mul':
                return SymFP(z3.fpMul(rm, a, b))
            if op == 'Div':
                return SymFP(z3.fpDiv(rm, a, b))
            return {'Eq': z3.fpEQ(a, b), 'Ne': z3.Not(z3.fpEQ(a, b)), 'Lt': z3.fpLT(a, b), 'Le': z3.fpLEQ(a, b),
                    'Gt': z3.fpGT(a, b), 'Ge': z3.fpGEQ(a, b)}[op]
        if op in ('Add', 'Sub'):
            if X.den == Y.den:
                e = X.e + Y.e if op == 'Add' else X.e - Y.e
                den = X.den
            else:
                e = X.e * Y.den + Y.e * X.den if op == 'Add' else X.e * Y.den - Y.e * X.den
                den = X.den * Y.den
            if den != 1:
                raise Unsupported('exact-f64: sum of non-integers')
            self.exact_guard(e)
            return SymF(e, den)
        if op == 'Mul':
            if X.den != 1 or Y.den != 1:
                raise Unsupported('exact-f64: product of non-integers')
            e = X.e * Y.e
            self.exact_guard(e)
            return SymF(e)
        if op == 'Div':
            if X.den != 1 or Y.den != 1:
                raise Unsupported('exact-f64: quotient of non-integers')
            yv = z3.simplify(Y.e)
            if not z3.is_int_value(yv):
                # divisor symbolic: decide its sign/zero by branching, keep as rational with symbolic den? not supported
                raise Unsupported('exact-f64: symbolic divisor')
            d = yv.as_long()
            if d == 0:
                # IEEE: x / 0.0 is +inf for x > 0, -inf for x < 0, NaN for x == 0
                if self.branch(X.e > 0):
                    return float('inf')
                if self.branch(X.e < 0):
                    return float('-inf')
                return float('nan')
            if d < 0:
                return SymF(-X.e, -d)
            return SymF(X.e, d)      # quotient kept exact; only comparisons may consume it (checked there)
        a = X.e * Y.den
        b = Y.e * X.den
        return {'Gt': a > b, 'Lt': a < b, 'Ge': a >= b, 'Le': a <= b, 'Eq': a == b, 'Ne': a != b}[op]
