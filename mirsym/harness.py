"""Shared harness infrastructure: neutral values, input generators, option construction, spec helpers."""
import json
from fractions import Fraction

import z3

from values import *
from interp import PyFn, Interp
from parse import Unsupported
import native as N

ESC = 0x1b


class Txt:
    """neutral string: list of (code point, utf-8 length); code points may be symbolic"""
    __slots__ = ('chars',)

    def __init__(s, chars):
        s.chars = list(chars)

    def __len__(s):
        return len(s.chars)

    def blen(s):
        return sum(nb for _, nb in s.chars)

    def __repr__(s):
        return 'Txt(%s)' % show_chars(s.chars)

    def concrete(s):
        return all(not is_sym(c) for c, _ in s.chars)

    def py(s):
        return ''.join(chr(c) for c, _ in s.chars)


def T(s):
    if isinstance(s, Txt):
        return s
    if isinstance(s, Str):
        return Txt(s.chars())
    if isinstance(s, OString):
        return Txt(s.chars)
    return Txt([(ord(c), utf8len(ord(c))) for c in s])


def to_str(t, origin='input'):
    return str_of_chars(T(t).chars, origin)


def concretize(x, m):
    """evaluate every symbolic leaf under model m; Txt -> Python str"""
    if isinstance(x, Txt):
        return ''.join(chr(concretize(c, m)) for c, _ in x.chars)
    if isinstance(x, bool) or x is None or isinstance(x, (int, float, str)):
        return x
    if is_sym(x):
        v = m.eval(x, model_completion=True)
        if z3.is_bool(v):
            return z3.is_true(v)
        if z3.is_int_value(v) or z3.is_bv_value(v):
            return v.as_long()
        if z3.is_rational_value(v):
            return float(Fraction(v.numerator_as_long(), v.denominator_as_long()))
        if z3.is_fp(v):
            return fp_to_float(v)
        raise Unsupported('cannot concretize %s' % v)
    if isinstance(x, SymF):
        num = concretize(x.e, m)
        return num / x.den if x.den != 1 else float(num)
    if isinstance(x, SymFP):
        return fp_to_float(m.eval(x.t, model_completion=True))
    if isinstance(x, dict):
        return {k: concretize(v, m) for k, v in x.items()}
    if isinstance(x, (list, tuple)):
        return [concretize(v, m) for v in x]
    if isinstance(x, Fraction):
        return float(x)
    raise Unsupported('cannot concretize %r' % (type(x).__name__,))


def fp_to_float(v):
    import struct
    v = z3.simplify(v)
    if z3.is_fp_value(v):
        if v.isNaN():
            return float('nan')
        if v.isInf():
            return float('-inf') if v.isNegative() else float('inf')
        bv = z3.simplify(z3.fpToIEEEBV(v))
        return struct.unpack('<d', struct.pack('<Q', bv.as_long()))[0]
    raise Unsupported('fp value %s' % v)


# ------------------------------------------------------------------ generators
CLASS_RANGE = {1: (0, 0x7f), 2: (0x80, 0x7ff), 3: (0x800, 0xffff), 4: (0x10000, 0x10ffff)}


def gen_text(I, n, tag='c', classes=(1,), exclude=(), lenvar=False, tokens=()):
    """class-symbolic text: each position forks over the UTF-8 length classes (and optional concrete tokens such as
    escape sequences); the code point is a fresh symbolic scalar of that class.  With lenvar the length forks 0..n."""
    if lenvar:
        n = I.choose(n + 1, 'len')
    chars = []
    opts = list(classes) + list(tokens)
    for i in range(n):
        k = I.choose(len(opts), 'class')
        o = opts[k]
        if isinstance(o, int):
            lo, hi = CLASS_RANGE[o]
            chars.append((I.sym_char('%s%d' % (tag, i), lo, hi, exclude), o))
        else:
            chars.extend((ord(c), utf8len(ord(c))) for c in o)
    return Txt(chars)


def gen_tmpl(I, tmpl, tag='t', exclude=(ESC,)):
    """sentence template: concrete characters with a few symbolic positions.  '?' is a symbolic 1-byte character
    (the whole class 0..0x7f minus `exclude`, so it may turn into a space, '-', CR or LF and change the word / line
    structure), U+00BF (inverted '?') a symbolic 2-byte character, U+203D a symbolic 3-byte character."""
    chars = []
    for k, ch in enumerate(tmpl):
        if ch == '?':
            chars.append((I.sym_char('%s%d' % (tag, k), 0, 0x7f, exclude=exclude), 1))
        elif ch == '\u00bf':
            chars.append((I.sym_char('%s%d' % (tag, k), *CLASS_RANGE[2]), 2))
        elif ch == '\u203d':
            chars.append((I.sym_char('%s%d' % (tag, k), *CLASS_RANGE[3]), 3))
        else:
            chars.append((ord(ch), utf8len(ord(ch))))
    return Txt(chars)


def gen_alpha(I, n, alphabet, lenvar=False):
    """alphabet text: each position forks over a stated finite alphabet of characters / tokens"""
    if lenvar:
        n = I.choose(n + 1, 'len')
    chars = []
    for i in range(n):
        tok = alphabet[I.choose(len(alphabet), 'alpha')]
        chars.extend((ord(c), utf8len(ord(c))) for c in tok)
    return Txt(chars)


# ------------------------------------------------------------------ options
def mk_penalties(I, pen=None):
    p = I.run('Penalties::new', [])
    if pen is not None:
        p = Agg('Penalties', list(pen))
    return p


def mk_options(I, width, le='LF', ii='', si='', bw=True, algo='F', sep='A', split='H', pen=None, custom_split=None):
    P = I.prog
    if algo == 'F':
        a = Enum('WrapAlgorithm', P.variant_index('WrapAlgorithm', 'FirstFit'), [])
    else:
        a = Enum('WrapAlgorithm', P.variant_index('WrapAlgorithm', 'OptimalFit'), [mk_penalties(I, pen)])
    s = Enum('WordSeparator', P.variant_index('WordSeparator', 'AsciiSpace' if sep == 'A' else 'UnicodeBreakProperties'), [])
    if split == 'N':
        sp = Enum('WordSplitter', P.variant_index('WordSplitter', 'NoHyphenation'), [])
    elif split == 'H':
        sp = Enum('WordSplitter', P.variant_index('WordSplitter', 'HyphenSplitter'), [])
    else:
        sp = Enum('WordSplitter', P.variant_index('WordSplitter', 'Custom'), [custom_split])
    return Agg('Options', [width, Enum('LineEnding', 0 if le == 'CRLF' else 1, []), to_str(ii, 'indent'),
                           to_str(si, 'indent'), bw, a, s, sp])


def native_opts(width, le='LF', ii='', si='', bw=True, algo='F', sep='A', split='H', pen=None, splits=None):
    a = algo
    if algo == 'O' and pen is not None:
        a = ('O',) + tuple(pen)
    sp = split
    if split == 'C':
        sp = ('C', splits or {})
    return N.opts_tokens({'width': width, 'le': le, 'ii': ii, 'si': si, 'bw': bw, 'algo': a, 'sep': sep, 'split': sp})


def lines_neutral(vec, inbuf):
    """Vec<Cow<str>> -> [{'kind': 'B'|'X'|'O', 'off': int|None, 'txt': Txt}]"""
    out = []
    for c in vec.l:
        if c.v == 0:
            st = c.f[0]
            if st.len() == 0:
                # an empty borrowed line has no meaningful position (the code may return a static "")
                out.append({'kind': 'E', 'off': None, 'txt': Txt([])})
            elif st.b is inbuf:
                out.append({'kind': 'B', 'off': st.s, 'txt': Txt(st.chars())})
            else:
                out.append({'kind': 'X', 'off': None, 'txt': Txt(st.chars())})
        else:
            out.append({'kind': 'O', 'off': None, 'txt': Txt(c.f[0].chars)})
    return out


def lines_from_native(resp):
    return [({'kind': 'E', 'off': None, 'txt': T('')} if (k in ('B', 'X') and t == '') else
             {'kind': k, 'off': off, 'txt': T(t)}) for k, off, t in N.parse_lines(resp)]


def norm(x):
    """comparable / JSON-able form of a concretized neutral value"""
    if isinstance(x, Txt):
        return x.py()
    if isinstance(x, dict):
        return {k: norm(v) for k, v in x.items()}
    if isinstance(x, (list, tuple)):
        return [norm(v) for v in x]
    return x


# ------------------------------------------------------------------ spec helpers (independent of the code under test)
class Spec:
    """transcriptions of the *specification* used by the oracles; they work on symbolic and concrete values"""

    def __init__(self, tables, feat='full'):
        self.t = tables
        self.feat = feat

    def char_width(self, I, cp):
        """column width of one character per the property text (unicode-width tables or the <U+1100 rule)"""
        if self.feat != 'full':
            if not is_sym(cp):
                return 1 if cp < 0x1100 else 2
            return z3.If(z3.ULT(cp, 0x1100), z3.IntVal(1), z3.IntVal(2))
        T_ = self.t
        if not is_sym(cp):
            w = T_.lookup('width', cp)
            return max(w, 0)
        lo, hi = I.cp_range.get(cp.get_id(), (0, 0x10FFFF))
        return T_.width_term(cp, lo, hi, floor0=True)

    def strip_ansi(self, I, chars, sym_not_esc=False):
        """remove CSI (ESC [ ... final @..~) and OSC (ESC ] ... BEL | ESC \\) sequences per the property's grammar.
        Branches (via I.branch) on symbolic characters.  An unterminated sequence extends to the end.
        ESC followed by anything else removes the ESC and that one character (the implementation's behaviour for
        malformed input; only reached by harnesses that allow malformed sequences).
        returns (kept_chars, keep_mask)"""
        out = []
        mask = [False] * len(chars)
        i = 0
        n = len(chars)
        while i < n:
            cp = chars[i][0]
            if (not (sym_not_esc and is_sym(cp))) and I.branch(v_eq(cp, ESC)):
                i += 1
                if i >= n:
                    break
                c2 = chars[i][0]
                i += 1
                if I.branch(v_eq(c2, ord('['))):
                    while i < n:
                        c = chars[i][0]
                        i += 1
                        if I.branch(v_and(v_le(0x40, c), v_le(c, 0x7e))):
                            break
                elif I.branch(v_eq(c2, ord(']'))):
                    last = ord(']')
                    while i < n:
                        c = chars[i][0]
                        i += 1
                        if I.branch(v_or(v_eq(c, 7), v_and(v_eq(c, ord('\\')), v_eq(last, ESC)))):
                            break
                        last = c
                continue
            mask[i] = True
            out.append(chars[i])
            i += 1
        return out, mask

    def display_width(self, I, chars, ansi=True, sym_not_esc=False):
        cs = self.strip_ansi(I, chars, sym_not_esc)[0] if ansi else chars
        return v_sum([self.char_width(I, c) for c, _ in cs])


def esc_mask(s):
    """concrete text: per-character flag 'outside every escape sequence as display_width parses them'"""
    mask = [True] * len(s)
    i = 0
    n = len(s)
    while i < n:
        if s[i] == '\x1b':
            mask[i] = False
            i += 1
            if i >= n:
                break
            c2 = s[i]
            mask[i] = False
            i += 1
            if c2 == '[':
                while i < n:
                    mask[i] = False
                    c = s[i]
                    i += 1
                    if '\x40' <= c <= '\x7e':
                        break
            elif c2 == ']':
                last = ']'
                while i < n:
                    mask[i] = False
                    c = s[i]
                    i += 1
                    if c == '\x07' or (c == '\\' and last == '\x1b'):
                        break
                    last = c
            continue
        i += 1
    return mask


class ConcreteChecker:
    """stands in for the interpreter when an oracle is evaluated on concrete (native) values"""
    concrete = True

    def __init__(self, tables=None):
        self.failed = []
        self.cp_range = {}
        self.obligations = 0

    def branch(self, c):
        if is_sym(c):
            c = z3.simplify(c)
            if z3.is_true(c):
                return True
            if z3.is_false(c):
                return False
            raise Unsupported('symbolic value in concrete replay: %s' % c)
        return bool(c)

    def check(self, cond, clause, msg=''):
        self.obligations += 1
        if not self.branch(cond):
            self.failed.append((clause, msg))
            return False
        return True

    def choose(self, n, label=''):
        raise Unsupported('choose in concrete replay')


class Harness:
    """base class of the per-property harnesses (props/cXX.py)"""
    prop = None
    title = ''
    features = ('full',)
    panic_policy = 'vacuous'     # 'vacuous': a panicking path has no output to judge (C04 judges it)
    validate_every = 7           # every k-th completed path is re-run natively and compared

    def spaces(self, tier, seed):
        raise NotImplementedError

    def run(self, I, cfg):
        """symbolic run: set I.inputs, execute MIR, call oracle; return neutral output"""
        raise NotImplementedError

    def native(self, nat, cfg, inputs):
        """run the real build on concrete inputs; return ('OK', neutral output) | ('PANIC', msg)"""
        raise NotImplementedError

    def oracle(self, I, cfg, inputs, out):
        raise NotImplementedError

    def decode(self, cfg, inputs):
        """concrete JSON inputs -> neutral inputs for the oracle (Python str -> Txt)"""
        return {k: (T(v) if isinstance(v, str) else v) for k, v in inputs.items()}

    def shape(self, cfg, inputs, clause):
        """coarse description of a counterexample used to key known findings"""
        return clause

    deadline_quick = 1800
    deadline_thorough = 2700

    def bounds_text(self, tier):
        return ''

    def assumptions(self):
        return ['rustc nightly MIR pretty-printer output is the semantics of /repo (overflow-checks=on, debug-assertions=off)',
                'hand-written models of core/alloc functions (mirsym/models.py), validated per run against the native build',
                'character tables (is_whitespace, is_alphanumeric, unicode-width) extracted from the real implementations over all code points',
                'z3 answers are correct; unknown/timeouts are reported as inconclusive']
