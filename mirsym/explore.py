"""Path exploration: DFS by decision prefix, sharded over processes; differential validation; replay."""
import concurrent.futures as cf
import importlib
import json
import multiprocessing as mp
import os
import random
import sys
import time
import traceback

import z3

from values import Panic, Infeasible, OutOfBounds
from parse import Unsupported
from interp import Interp, Stats
from models import Models, Tables
from native import Native
from harness import concretize, norm, ConcreteChecker, Spec
from program import load_program

sys.setrecursionlimit(50000)

_CTX = {}


def ctx_get(feat):
    """per-process interpreter / native runner for a feature set"""
    c = _CTX.get(feat)
    if c is None:
        prog = load_program(feat)
        nat_full = Native('full')
        tables = _CTX.get('tables')
        if tables is None:
            tables = Tables(nat_full)
            _CTX['tables'] = tables
        nat = nat_full if feat == 'full' else Native('nd')
        I = Interp(prog, Models(tables, nat_full))
        I.native = nat_full
        c = {'I': I, 'nat': nat, 'tables': tables, 'spec': Spec(tables, feat)}
        _CTX[feat] = c
    return c


def load_harness(name):
    sys.path.insert(0, os.path.join(os.path.dirname(os.path.dirname(os.path.abspath(__file__))), 'props'))
    mod = importlib.import_module(name.lower())
    return mod.HARNESS


class TaskResult:
    def __init__(s):
        s.stats = Stats()
        s.violations = []      # dicts
        s.leftover = []
        s.samples = []
        s.validated = 0
        s.mismatch = []
        s.unsupported = None
        s.panic_samples = []
        s.cut_reasons = {}
        s.max_depth = 0


def make_case(H, cfg, I, clause, msg):
    if I.inputs is None:
        return None
    try:
        m = I.get_model()
        cin = concretize(I.inputs, m)
    except (Infeasible, Unsupported):
        return None
    return {'property': H.prop, 'clause': clause, 'msg': msg, 'cfg': cfg, 'inputs': norm(cin)}


def run_task(args):
    hname, cfg, prefixes, budget, tbudget, deadline, validate = args
    res = TaskResult()
    try:
        H = load_harness(hname)
        feat = cfg.get('feat', 'full')
        c = ctx_get(feat)
        I = c['I']
        H.spec = c['spec']
        H.tables = c['tables']
        I.stats = res.stats
        stack = list(prefixes)
        t_end = time.time() + tbudget
        while stack:
            if res.stats.paths >= budget or time.time() > t_end or time.time() > deadline:
                break
            prefix = stack.pop()
            I.reset_path(prefix)
            I.float_mode = cfg.get('float_mode', 'exact')
            I.int_enum_limit = cfg.get('enum_limit', 64)
            I.on_violation = lambda I_, clause, msg: make_case(H, cfg, I_, clause, msg)
            res.stats.paths += 1
            outcome = None
            out = None
            pmsg = None
            try:
                out = H.run(I, cfg)
                outcome = 'ok'
                res.stats.completed += 1
            except Panic as e:
                outcome = 'panic'
                pmsg = str(e)
                res.stats.panics += 1
                if H.panic_policy == 'violation' and not I.replaying():
                    I._violate('panic', pmsg)
            except Infeasible:
                res.stats.infeasible += 1
            except OutOfBounds as e:
                res.stats.cut += 1
                res.cut_reasons[str(e)] = res.cut_reasons.get(str(e), 0) + 1
            stack.extend(I.alts)
            res.max_depth = max(res.max_depth, len(I.trace))
            for v in I.violations:
                res.violations.append({'clause': v.clause, 'msg': v.msg, 'case': v.case, 'decisions': v.decisions})
            # differential validation of this path against the native build
            if outcome in ('ok', 'panic') and I.inputs is not None and validate and \
                    ((res.stats.completed + res.stats.panics) % H.validate_every == 1 or H.validate_every == 1):
                try:
                    m = I.get_model()
                    cin = norm(concretize(I.inputs, m))
                    st, nout = H.native(c['nat'], cfg, cin)
                    mine = ('PANIC', None) if outcome == 'panic' else ('OK', norm(concretize(out, m)))
                    theirs = ('PANIC', None) if st in ('PANIC', 'CRASH') else ('OK', norm(nout))
                    res.validated += 1
                    if mine != theirs:
                        res.mismatch.append({'cfg': cfg, 'inputs': cin, 'mirsym': mine, 'native': theirs,
                                             'panic_msg': pmsg, 'native_msg': nout if st != 'OK' else None})
                    if len(res.samples) < 2 and outcome == 'ok':
                        res.samples.append({'cfg': cfg, 'decisions': ''.join(str(d) for d in I.trace),
                                            'inputs': cin, 'output': mine[1]})
                    if outcome == 'panic' and len(res.panic_samples) < 2:
                        res.panic_samples.append({'cfg': cfg, 'inputs': cin, 'panic': pmsg})
                except Infeasible:
                    pass
        res.leftover = stack
    except Unsupported as e:
        res.unsupported = 'unsupported: %s' % e
    except Exception as e:  # interpreter bug: inconclusive, never a violation
        res.unsupported = 'internal error: %s\n%s' % (e, traceback.format_exc()[-1500:])
    res.stats.fns = set(res.stats.fns)
    return res


class SpaceResult:
    def __init__(s, cfg):
        s.cfg = cfg
        s.stats = Stats()
        s.violations = []
        s.samples = []
        s.panic_samples = []
        s.validated = 0
        s.mismatch = []
        s.unsupported = None
        s.complete = False
        s.wall = 0.0
        s.cut_reasons = {}
        s.max_depth = 0


def explore_spaces(hname, spaces, workers, deadline, validate=True, log=None):
    """explore every space completely (or until the deadline); returns [SpaceResult]"""
    results = [SpaceResult(cfg) for cfg in spaces]
    if workers <= 1:
        for i, cfg in enumerate(spaces):
            t0 = time.time()
            stack = [[]]
            R = results[i]
            while stack and time.time() < deadline and R.unsupported is None:
                r = run_task((hname, cfg, stack, 10 ** 9, 10 ** 9, deadline, validate))
                stack = r.leftover
                _merge(R, r)
            R.complete = not stack and R.unsupported is None
            R.wall = time.time() - t0
        return results
    ctx = mp.get_context('fork')
    with cf.ProcessPoolExecutor(max_workers=workers, mp_context=ctx) as ex:
        pending = {}
        t0 = time.time()
        outstanding = [0] * len(spaces)
        for i, cfg in enumerate(spaces):
            fut = ex.submit(run_task, (hname, cfg, [[]], 6, 5.0, deadline, validate))
            pending[fut] = i
            outstanding[i] += 1
        while pending:
            done, _ = cf.wait(list(pending), return_when=cf.FIRST_COMPLETED)
            for fut in done:
                i = pending.pop(fut)
                outstanding[i] -= 1
                r = fut.result()
                R = results[i]
                _merge(R, r)
                if r.unsupported is not None:
                    continue
                left = r.leftover
                if left and time.time() < deadline and R.unsupported is None:
                    busy = len(pending)
                    if busy < 2 * workers:
                        nchunks = min(len(left), max(1, 2 * workers - busy))
                    else:
                        nchunks = 1
                    # deepest prefixes (top of stack) are the smallest subtrees; spread them round-robin
                    chunks = [left[k::nchunks] for k in range(nchunks)]
                    budget = 60 if busy >= workers else 20
                    for ch in chunks:
                        if ch:
                            f2 = ex.submit(run_task, (hname, spaces[i], ch, budget, 8.0, deadline, validate))
                            pending[f2] = i
                            outstanding[i] += 1
                elif left:
                    R.incomplete_left = len(left)
                if outstanding[i] == 0:
                    R.complete = (not left or False) and R.unsupported is None and not getattr(R, 'incomplete_left', 0)
                    R.wall = time.time() - t0
                    if log:
                        log('space %d/%d done: %s paths=%d viol=%d %.1fs' % (i + 1, len(spaces), _cfgstr(spaces[i]),
                                                                           R.stats.paths, len(R.violations), R.wall))
    return results


def _cfgstr(cfg):
    def show(v):
        if isinstance(v, str) and any(ord(c) < 32 for c in v):
            return v.encode('unicode_escape').decode()
        return v
    return ' '.join('%s=%s' % (k, show(v)) for k, v in cfg.items())


def _merge(R, r):
    R.stats.merge(r.stats)
    R.violations.extend(r.violations)
    if len(R.samples) < 3:
        R.samples.extend(r.samples[:3 - len(R.samples)])
    if len(R.panic_samples) < 3:
        R.panic_samples.extend(r.panic_samples[:3 - len(R.panic_samples)])
    R.validated += r.validated
    R.mismatch.extend(r.mismatch)
    R.max_depth = max(R.max_depth, r.max_depth)
    for k, v in r.cut_reasons.items():
        R.cut_reasons[k] = R.cut_reasons.get(k, 0) + v
    if r.unsupported and not R.unsupported:
        R.unsupported = r.unsupported


# ------------------------------------------------------------------ replay
def replay_case(H, case, profile='debug'):
    """run the concrete case against the real build and evaluate the oracle on the native output.
    returns list of (clause, msg) that failed natively"""
    cfg = case['cfg']
    feat = cfg.get('feat', 'full')
    c = ctx_get(feat)
    H.spec = c['spec']
    H.tables = c['tables']
    nat = c['nat'] if profile == 'debug' else _release(feat)
    st, out = H.native(nat, cfg, case['inputs'])
    if st in ('PANIC', 'CRASH'):
        return [('panic', out)] if H.panic_policy == 'violation' else []
    CI = ConcreteChecker()
    CI.native = ctx_get('full')['nat']
    try:
        H.oracle(CI, cfg, H.decode(cfg, case['inputs']), out)
    except Infeasible:
        pass
    return CI.failed


def _release(feat):
    k = 'rel-' + feat
    if k not in _CTX:
        _CTX[k] = Native(feat if feat == 'full' else 'nd', 'release')
    return _CTX[k]
