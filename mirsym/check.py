"""Driver:  check.py <PROPERTY> [--tier quick|thorough] [--replay file] [--workers n]

exit 0  property held on everything explored (KNOWN-FINDING lines possible)
exit 1  VIOLATION property=<id> replay=<path>   (confirmed against the native build)
exit 2  INCONCLUSIVE (unsupported MIR after an edit, model/native disagreement, solver unknown, build failure; in the
        quick tier also an unfinished space -- the thorough tier treats its time budget as a stated bound)
"""
import argparse
import hashlib
import json
import os
import random
import subprocess
import sys
import time

HERE = os.path.dirname(os.path.abspath(__file__))
VERIF = os.path.dirname(HERE)
sys.path.insert(0, HERE)
sys.path.insert(0, os.path.join(VERIF, 'props'))

from parse import Unsupported  # noqa: E402
import explore  # noqa: E402
from program import load_program  # noqa: E402


def log(msg):
    print('[%s] %s' % (time.strftime('%H:%M:%S'), msg), file=sys.stderr, flush=True)


def build_native(feats):
    """build the native runner against the tree under test (VERIF_REPO, default /repo).  For a tree other than
    /repo (scratch copies used when testing seeded changes) the runner crates are copied to scratch with the path
    dependency rewritten, so /repo and /verif stay untouched."""
    env = dict(os.environ)
    env['CARGO_NET_OFFLINE'] = 'true'
    env['RUSTFLAGS'] = '--cfg fuzzing'
    repo = os.environ.get('VERIF_REPO', '/repo')
    base = VERIF
    if os.path.realpath(repo) != '/repo':
        import shutil
        import hashlib as _h
        base = os.path.join(os.environ.get('VERIF_SCRATCH', '/var/tmp/verif-scratch'),
                            'native-' + _h.sha1(os.path.realpath(repo).encode()).hexdigest()[:10])
        os.makedirs(base, exist_ok=True)
        for d in ('native', 'native_nd'):
            dst = os.path.join(base, d)
            os.makedirs(os.path.join(dst, 'src'), exist_ok=True)
            for f in ('Cargo.toml', 'Cargo.lock'):
                txt = open(os.path.join(VERIF, d, f)).read().replace('path = "/repo"', 'path = "%s"' % os.path.realpath(repo))
                open(os.path.join(dst, f), 'w').write(txt)
        shutil.copy(os.path.join(VERIF, 'native', 'src', 'main.rs'), os.path.join(base, 'native', 'src', 'main.rs'))
        os.environ['VERIF_NATIVE_BASE'] = base
    dirs = ['native'] + (['native_nd'] if 'nd' in feats else [])
    for d in dirs:
        for prof in ([], ['--release']):
            r = subprocess.run(['cargo', 'build', '--offline', '-q'] + prof, cwd=os.path.join(base, d), env=env,
                               capture_output=True, text=True)
            if r.returncode != 0:
                return 'native build failed (%s %s):\n%s' % (d, ' '.join(prof), r.stderr[-3000:])
    return None


def load_known():
    p = os.path.join(VERIF, 'known_findings.json')
    if not os.path.exists(p):
        return []
    return json.load(open(p)).get('findings', [])


PARTIAL = False     # --only (debugging): a partial run never overwrites the committed evidence


def out_dir(kind):
    """evidence/ and replays/ under /verif for runs against /repo; under scratch for other trees (seed testing)"""
    repo = os.environ.get('VERIF_REPO', '/repo')
    if os.path.realpath(repo) == '/repo' and not PARTIAL:
        d = os.path.join(VERIF, kind)
    else:
        d = os.path.join(os.environ.get('VERIF_OUT', os.path.join(os.environ.get('VERIF_SCRATCH', '/var/tmp/verif-scratch'), 'out')), kind)
    os.makedirs(d, exist_ok=True)
    return d


def write_evidence(prop, doc):
    p = os.path.join(out_dir('evidence'), prop + '.json')
    with open(p + '.tmp', 'w') as f:
        json.dump(doc, f, indent=1, sort_keys=True, default=str)
    os.replace(p + '.tmp', p)


def main():
    ap = argparse.ArgumentParser()
    ap.add_argument('prop')
    ap.add_argument('--tier', default=os.environ.get('VERIF_TIER', 'quick'))
    ap.add_argument('--replay')
    ap.add_argument('--workers', type=int, default=int(os.environ.get('VERIF_WORKERS', '16')))
    ap.add_argument('--deadline', type=float, default=None)
    ap.add_argument('--only', default=None, help='substring filter on space description (debugging)')
    a = ap.parse_args()
    tier = 'thorough' if a.tier.startswith('t') else 'quick'
    seed = int(os.environ.get('VERIF_SEED', '0'))
    prop = a.prop.upper()
    # per-query solver timeout: 30 s (quick), 150 s (thorough); `unknown` is retried with other solver
    # configurations and finally reported as inconclusive
    os.environ.setdefault('VERIF_QTO_MS', '30000' if tier == 'quick' else '150000')
    t0 = time.time()
    H = explore.load_harness(prop)
    feats = set(H.features)

    err = build_native(feats)
    if err:
        print('INCONCLUSIVE property=%s reason=build' % prop)
        log(err)
        return 2

    if a.replay:
        case = json.load(open(a.replay))
        bad = []
        for prof in ('debug', 'release'):
            failed = explore.replay_case(H, case, prof)
            print('replay[%s]: %s' % (prof, failed if failed else 'property holds on this input'))
            bad += failed
        if bad:
            print('VIOLATION property=%s replay=%s' % (prop, os.path.abspath(a.replay)))
            return 1
        return 0

    try:
        progs = {f: load_program(f) for f in sorted(feats)}
    except Unsupported as e:
        print('INCONCLUSIVE property=%s reason=mir-dump' % prop)
        log(str(e))
        return 2
    log('MIR regenerated from /repo: ' + ', '.join('%s: %d items, %d lines, %.1fs' % (f, len(p.items), p.mir_lines,
                                                                                       p.dump_seconds)
                                                    for f, p in progs.items()))
    spaces = H.spaces(tier, seed)
    if a.only:
        global PARTIAL
        PARTIAL = True
        spaces = [s for s in spaces if a.only in explore._cfgstr(s)]
    random.Random(seed).shuffle(spaces)
    limit = a.deadline or (H.deadline_quick if tier == 'quick' else H.deadline_thorough)
    deadline = t0 + limit
    log('%s tier=%s seed=%d spaces=%d workers=%d' % (prop, tier, seed, len(spaces), a.workers))
    bg = H.start_background(tier) if hasattr(H, 'start_background') and not a.only else None
    results = explore.explore_spaces(prop, spaces, a.workers, deadline, log=log)
    cross = None
    if bg is not None:
        cross = H.finish_background(bg)
        log('cross-engine check: %s %s' % (cross[0], {k: v for k, v in cross[1].items() if k in ('harness', 'seconds', 'checks', 'failed_checks')}))

    # ---------------- aggregate
    total = explore.Stats()
    validated = 0
    mismatches = []
    unsupported = []
    incomplete = []
    violations = []
    samples = []
    panic_samples = []
    cut_reasons = {}
    space_rows = []
    for R in results:
        total.merge(R.stats)
        validated += R.validated
        mismatches += R.mismatch
        if R.unsupported:
            unsupported.append((R.cfg, R.unsupported))
        elif not R.complete:
            incomplete.append(R.cfg)
        violations += R.violations
        samples += R.samples[:1]
        panic_samples += R.panic_samples[:1]
        for k, v in R.cut_reasons.items():
            cut_reasons[k] = cut_reasons.get(k, 0) + v
        space_rows.append({'space': R.cfg, 'paths': R.stats.paths, 'completed': R.stats.completed,
                           'panic_paths': R.stats.panics, 'cut': R.stats.cut, 'obligations': R.stats.obligations,
                           'solver_calls': R.stats.solver_calls, 'wall_s': round(R.wall, 1),
                           'complete': R.complete, 'max_decision_depth': R.max_depth})

    # ---------------- violations: dedupe, replay natively, classify
    known = [k for k in load_known() if k.get('property') == prop]
    groups = {}
    unreplayable = [v for v in violations if v['case'] is None]
    if unreplayable and hasattr(H, 'kernel_witness'):
        # abstract-state counterexamples: look for a concrete witness beyond the bounded spaces (see fragbase.py)
        try:
            for case in H.kernel_witness(explore.ctx_get('full')['nat']):
                violations.append({'clause': case['clause'], 'msg': case['msg'], 'case': case, 'decisions': ''})
                log('kernel counterexample: concrete witness found: %s' % json.dumps(case['inputs'])[:200])
        except Exception as e:
            log('kernel witness search failed: %s' % (e,))
    for v in violations:
        if v['case'] is None:
            continue
        sh = H.shape(v['case']['cfg'], v['case']['inputs'], v['clause'])
        groups.setdefault((v['clause'], sh), []).append(v)
    confirmed = []
    known_hits = {}
    unreproduced = []
    for (clause, sh), vs in sorted(groups.items(), key=lambda kv: str(kv[0])):
        vs.sort(key=lambda v: len(json.dumps(v['case']['inputs'])))
        ok = None
        for v in vs[:4]:
            failed = []
            for prof in ('debug', 'release'):
                failed += [(c, m, prof) for c, m in explore.replay_case(H, v['case'], prof)]
            if failed:
                ok = (v, failed)
                break
        if ok is None:
            unreproduced.append({'clause': clause, 'shape': sh, 'case': vs[0]['case'], 'msg': vs[0]['msg']})
            continue
        v, failed = ok
        kf = None
        for k in known:
            if k.get('status', 'known') == 'known' and k.get('clause') == clause and k.get('shape') == sh:
                kf = k
        if kf is not None:
            known_hits.setdefault((clause, sh), (kf, v, len(vs)))
            continue
        case = dict(v['case'])
        case['native_failed'] = [list(x) for x in failed]
        case['shape'] = sh
        h = hashlib.sha1(json.dumps(case, sort_keys=True).encode()).hexdigest()[:10]
        path = os.path.join(out_dir('replays'), '%s-%s.json' % (prop, h))
        json.dump(case, open(path, 'w'), indent=1)
        confirmed.append((clause, sh, v, path, len(vs)))

    wall = time.time() - t0
    status = 0
    if confirmed:
        status = 1
    # the time budget: in the quick tier an unfinished space makes the run INCONCLUSIVE (the quick bounds are part of
    # the claim); in the thorough tier the budget is a stated bound of its own -- the run reports what was explored
    # ("held on everything explored"), lists the spaces it could not finish and says so in the verdict line
    strict_deadline = tier == 'quick' or os.environ.get('VERIF_STRICT_DEADLINE') == '1'
    budget_cut = incomplete if not strict_deadline else []
    if unsupported or mismatches or unreproduced or (incomplete and strict_deadline) or unreplayable:
        status = 2 if not confirmed else 1
    if total.completed == 0 and not confirmed:
        status = 2
    cross_problem = None
    if cross is not None and cross[0] != 'ok' and status == 0:
        # engine B refutes or cannot decide what engine A accepted: the engines disagree -> inconclusive
        status = 2
        cross_problem = cross[0]

    fns = sorted(total.fns)
    tmpl_note = ''
    if any(c.get('gen') in ('tmpl', 'atmpl') or 'ta' in c for c in spaces):
        tmpl_note = (' Plus sentence-template spaces (gen=tmpl / atmpl, listed under spaces): concrete paragraph-sized '
                     'texts in which the marked positions are symbolic characters of a whole UTF-8 class (or fork over '
                     'a stated alphabet), width / indents / options symbolic as elsewhere.')
    doc = {
        'property_id': prop, 'tier': tier, 'seed': seed, 'level': 'model_checking', 'wall_s': round(wall, 1),
        'violations': len(confirmed),
        'coverage': {
            'states': total.blocks, 'transitions': total.decisions + total.paths,
            'traces_validated_against_impl': validated,
            'samples': samples[:6] if samples else [{'note': 'no completed path sampled'}],
            'obligations': total.obligations, 'discharged': total.discharged,
            'paths': total.paths, 'paths_completed': total.completed, 'paths_panicking': total.panics,
            'paths_infeasible': total.infeasible, 'paths_cut_by_encoding_bound': total.cut, 'cut_reasons': cut_reasons,
            'solver_queries': total.solver_calls, 'solver_seconds': round(total.solver_s, 1),
            'exhaustive': not incomplete and not unsupported,
            'spaces_cut_by_time_budget': len(budget_cut), 'time_budget_s': limit,
            'explanation': 'bounded symbolic execution of rustc MIR regenerated from /repo: states = MIR basic blocks '
                           'executed, transitions = solver-decided branch decisions + paths; every obligation is an '
                           'SMT query "path condition and not(assertion)" answered unsat (discharged) or sat '
                           '(counterexample, replayed natively). Each space below was explored completely: all '
                           'values of the symbolic scalars, all forks of the stated structure.',
            'functions_encoded': fns, 'n_functions_encoded': len(fns),
            'mir': {f: {'items': len(p.items), 'lines': p.mir_lines, 'dump_s': round(p.dump_seconds, 1)} for f, p in progs.items()},
            'spaces': space_rows, 'bounds': H.bounds_text(tier) + tmpl_note,
            'panic_samples': panic_samples[:4],
            'known_findings_hit': [{'clause': c, 'shape': s, 'paths': n} for (c, s), (_, _, n) in known_hits.items()],
            'model_native_mismatches': mismatches[:5], 'unsupported': [u[1] for u in unsupported[:3]],
            'unreproduced_counterexamples': unreproduced[:5], 'incomplete_spaces': incomplete[:40],
            'cross_engine': cross[1] if cross else None,
            'kernel_counterexamples': [{'clause': v['clause'], 'msg': v['msg']} for v in unreplayable[:5]],
        },
        'assumptions': H.assumptions(),
    }
    write_evidence(prop, doc)

    for (clause, sh), (kf, v, n) in sorted(known_hits.items()):
        print('KNOWN-FINDING: property=%s %s [%s] e.g. %s' % (prop, kf.get('description', clause), sh,
                                                                json.dumps(v['case']['inputs'])[:300]))
    for clause, sh, v, path, n in confirmed:
        print('VIOLATION property=%s replay=%s' % (prop, path))
        print('  clause=%s shape=%s paths=%d msg=%s' % (clause, sh, n, v['msg']))
        print('  cfg=%s' % json.dumps(v['case']['cfg']))
        print('  inputs=%s' % json.dumps(v['case']['inputs'])[:600])
    if unsupported:
        print('INCONCLUSIVE property=%s reason=%s' % (prop, unsupported[0][1].split('\n')[0][:300]))
        for u in unsupported[:3]:
            log('space %s: %s' % (u[0], u[1]))
    if mismatches:
        print('INCONCLUSIVE property=%s reason=model-vs-native mismatch (%d)' % (prop, len(mismatches)))
        for mm in mismatches[:3]:
            log(json.dumps(mm, default=str)[:1500])
    if unreproduced:
        print('INCONCLUSIVE property=%s reason=counterexample did not reproduce natively (%d)' % (prop, len(unreproduced)))
        for u in unreproduced[:3]:
            log(json.dumps(u, default=str)[:1500])
    if unreplayable:
        # kernel-mode (abstract pre-state) counterexamples cannot be replayed natively: they only count when the
        # bounded runs reproduce them; alone they make the run inconclusive
        kinds = sorted({v['clause'] for v in unreplayable})
        print('%s property=%s reason=kernel-mode counterexample(s) without native replay: %s' %
              ('NOTE' if confirmed else 'INCONCLUSIVE', prop, ', '.join(kinds)))
        for v in unreplayable[:3]:
            log('kernel counterexample: %s: %s' % (v['clause'], v['msg']))
    if incomplete and strict_deadline:
        print('INCONCLUSIVE property=%s reason=deadline: %d spaces unfinished' % (prop, len(incomplete)))
    elif incomplete:
        print('NOTE property=%s time budget of %d s reached: %d of %d spaces only partly explored (listed in the evidence '
              'file under incomplete_spaces; nothing is claimed for their unexplored part)' % (prop, limit, len(incomplete), len(spaces)))
    if cross_problem:
        print('INCONCLUSIVE property=%s reason=cross-engine check (Kani) %s' % (prop, cross_problem))
        log(str(cross[1].get('tail', ''))[-800:])
    print('%s %s: spaces=%d paths=%d (completed %d, panicking %d, cut %d) obligations=%d discharged=%d solver_queries=%d '
          'solver_s=%.1f validated_natively=%d wall=%.1fs -> %s' %
          (prop, tier, len(spaces), total.paths, total.completed, total.panics, total.cut, total.obligations,
           total.discharged, total.solver_calls, total.solver_s, validated, wall,
           {0: 'HOLDS (within bounds%s)' % ('; %d spaces cut by the time budget' % len(budget_cut) if budget_cut else ''),
            1: 'VIOLATION', 2: 'INCONCLUSIVE'}[status]))
    return status


if __name__ == '__main__':
    try:
        rc = main()
    except SystemExit:
        raise
    except BaseException:
        # an internal error of the machinery is never a verdict about the code: exit 2 (inconclusive), not 1
        import traceback
        traceback.print_exc()
        print('INCONCLUSIVE reason=internal error of the checker (traceback above)')
        rc = 2
    sys.exit(rc)
