"""Regenerates the MIR of /repo's current working tree (and of the locked smawk dependency) and loads it."""
import glob
import os
import re
import shutil
import subprocess
import time

from parse import parse_items, split_top, Unsupported
from interp import Program

REPO = os.environ.get('VERIF_REPO', '/repo')
VERIF = os.path.dirname(os.path.dirname(os.path.abspath(__file__)))
SCRATCH_ROOT = os.environ.get('VERIF_SCRATCH', '/var/tmp/verif-scratch')
CACHE = os.path.join(VERIF, '.cache')

FEATURES = {
    'full': ['unicode-linebreak', 'unicode-width', 'smawk'],
    'nd': [],
}


def _env():
    e = dict(os.environ)
    e['CARGO_NET_OFFLINE'] = 'true'
    e.pop('RUSTFLAGS', None)
    return e


def dump_mir(feat, keep=None):
    """copy /repo's working tree to scratch, dump MIR with the nightly toolchain; returns (text, srcroot, seconds).
    Serialised per feature set with a file lock: concurrent checks share the cargo target directory, and the smawk
    step removes fingerprints there."""
    import fcntl
    os.makedirs(CACHE, exist_ok=True)
    with open(os.path.join(CACHE, 'mirtarget-%s.lock' % feat), 'w') as lk:
        fcntl.flock(lk, fcntl.LOCK_EX)
        try:
            return _dump_mir(feat)
        finally:
            fcntl.flock(lk, fcntl.LOCK_UN)


def _dump_mir(feat):
    t0 = time.time()
    os.makedirs(SCRATCH_ROOT, exist_ok=True)
    work = os.path.join(SCRATCH_ROOT, 'src-%s-%d' % (feat, os.getpid()))
    shutil.rmtree(work, ignore_errors=True)
    subprocess.run(['rsync', '-a', '--exclude', 'target', '--exclude', '.git', REPO + '/', work + '/'], check=True)
    os.utime(os.path.join(work, 'src', 'lib.rs'))
    tgt = os.path.join(CACHE, 'mirtarget-' + feat)
    os.makedirs(tgt, exist_ok=True)
    flags = ['-Zunpretty=mir', '-C', 'debug-assertions=off', '-C', 'overflow-checks=on']
    cmd = ['cargo', '+nightly', 'rustc', '--offline', '--lib', '--target-dir', tgt]
    if feat == 'nd':
        cmd.append('--no-default-features')
    r = subprocess.run(cmd + ['--'] + flags, cwd=work, env=_env(), capture_output=True, text=True)
    if r.returncode != 0 or 'fn ' not in r.stdout:
        shutil.rmtree(work, ignore_errors=True)
        raise Unsupported('MIR dump failed for feature set %s:\n%s' % (feat, r.stderr[-2000:]))
    text = r.stdout
    smawk = ''
    if feat == 'full':
        # the dependency's MIR: force a rebuild of smawk only
        for f in glob.glob(os.path.join(tgt, 'debug', '.fingerprint', 'smawk-*')):
            shutil.rmtree(f, ignore_errors=True)
        r2 = subprocess.run(['cargo', '+nightly', 'rustc', '--offline', '-p', 'smawk', '--lib', '--target-dir', tgt,
                             '--'] + flags, cwd=work, env=_env(), capture_output=True, text=True)
        if r2.returncode != 0 or 'fn online_column_minima' not in r2.stdout:
            shutil.rmtree(work, ignore_errors=True)
            raise Unsupported('MIR dump of smawk failed:\n' + r2.stderr[-2000:])
        smawk = r2.stdout
    return text, smawk, work, time.time() - t0


def parse_enums(srcroot, feat):
    """enum name -> variant names in declaration order after applying #[cfg(feature = ..)] for this feature set"""
    enabled = set(FEATURES[feat])
    enums = {}
    for path in glob.glob(os.path.join(srcroot, 'src', '**', '*.rs'), recursive=True):
        src = open(path).read()
        src = re.sub(r'//[^\n]*', '', src)
        for m in re.finditer(r'\benum (\w+)(?:<[^>{]*>)?\s*\{', src):
            name = m.group(1)
            i = m.end()
            d = 1
            j = i
            while d:
                c = src[j]
                if c == '{':
                    d += 1
                elif c == '}':
                    d -= 1
                j += 1
            body = src[i:j - 1]
            variants = []
            for part in split_top(body):
                part = part.strip()
                if not part:
                    continue
                keep = True
                while part.startswith('#['):
                    k = part.index(']')
                    # attribute may contain nested brackets
                    depth = 0
                    for k, c in enumerate(part):
                        if c == '[':
                            depth += 1
                        elif c == ']':
                            depth -= 1
                            if depth == 0:
                                break
                    attr = part[:k + 1]
                    part = part[k + 1:].strip()
                    mm = re.match(r'#\[cfg\((not\()?feature = "([\w-]+)"\)?\)\]', attr)
                    if mm:
                        on = mm.group(2) in enabled
                        if mm.group(1):
                            on = not on
                        keep = keep and on
                    elif attr.startswith('#[cfg('):
                        raise Unsupported('unhandled cfg on enum variant: ' + attr)
                vm = re.match(r'(\w+)', part)
                if keep and vm:
                    variants.append(vm.group(1))
            enums.setdefault(name, variants)
    return enums


_PROGRAMS = {}


def load_program(feat='full'):
    """regenerated from /repo on the first call in a process (the driver calls it before forking workers)"""
    if feat in _PROGRAMS:
        return _PROGRAMS[feat]
    text, smawk, work, secs = dump_mir(feat)
    try:
        items = parse_items(text)
        if smawk:
            for k, v in parse_items(smawk).items():
                items.setdefault(k, v)
        enums = parse_enums(work, feat)
        prog = Program(items, work, enums, feat)
        prog.dump_seconds = secs
        prog.mir_lines = text.count('\n') + smawk.count('\n')
    finally:
        shutil.rmtree(work, ignore_errors=True)
    _PROGRAMS[feat] = prog
    return prog
