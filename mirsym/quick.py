"""Cheap three-valued evaluation of z3 conditions from variable ranges alone (interval reasoning).

Used as a pre-filter before solver calls: a definite answer is implied by the range constraints that are part of
every path condition (sym_char / sym_int add them), so it is sound; `None` means "ask the solver".
"""
import z3

INF = float('inf')
K = z3


class Quick:
    def __init__(self, I):
        self.I = I
        self.icache = {}
        self.bcache = {}
        self.tcache = {}
        self.keep = []

    def reset(self):
        self.icache.clear()
        self.bcache.clear()
        self.tcache.clear()
        self.keep = []

    # ---- integer terms -> (lo, hi)
    def ival(self, t):
        k = t.get_id()
        r = self.icache.get(k)
        if r is not None:
            return r
        r = self._ival(t)
        self.icache[k] = r
        self.keep.append(t)
        return r

    def _ival(self, t):
        if z3.is_int_value(t):
            v = t.as_long()
            return (v, v)
        d = t.decl().kind()
        if d == z3.Z3_OP_UNINTERPRETED:
            return self.I.int_range.get(t.get_id(), (-INF, INF))
        ch = t.children()
        if d == z3.Z3_OP_ADD:
            lo = hi = 0
            for c in ch:
                a, b = self.ival(c)
                lo += a
                hi += b
            return (lo, hi)
        if d == z3.Z3_OP_SUB:
            a, b = self.ival(ch[0])
            for c in ch[1:]:
                x, y = self.ival(c)
                a, b = a - y, b - x
            return (a, b)
        if d == z3.Z3_OP_UMINUS:
            a, b = self.ival(ch[0])
            return (-b, -a)
        if d == z3.Z3_OP_ITE:
            a, b = self.ival(ch[1])
            x, y = self.ival(ch[2])
            return (min(a, x), max(b, y))
        if d == z3.Z3_OP_MUL and len(ch) == 2:
            a, b = self.ival(ch[0])
            x, y = self.ival(ch[1])
            if INF in (a, b, x, y) or -INF in (a, b, x, y):
                if a >= 0 and x >= 0:
                    return (a * x if a != INF and x != INF else 0, INF)
                return (-INF, INF)
            ps = [a * x, a * y, b * x, b * y]
            return (min(ps), max(ps))
        if d == z3.Z3_OP_IDIV and len(ch) == 2:
            a, b = self.ival(ch[0])
            x, y = self.ival(ch[1])
            if x == y and x > 0 and a >= 0:
                return (a // x, b // x if b != INF else INF)
            if a >= 0 and x > 0:
                return (0, b)
            return (-INF, INF)
        if d == z3.Z3_OP_MOD and len(ch) == 2:
            x, y = self.ival(ch[1])
            if x > 0 and y != INF:
                return (0, y - 1)
            return (-INF, INF)
        if d == z3.Z3_OP_BV2INT or (hasattr(z3, 'Z3_OP_UBV2INT') and d == getattr(z3, 'Z3_OP_UBV2INT')):
            return self.bval(ch[0])
        return (-INF, INF)

    # ---- bit-vector terms (unsigned) -> (lo, hi)
    def bval(self, t):
        k = t.get_id()
        r = self.bcache.get(k)
        if r is not None:
            return r
        if z3.is_bv_value(t):
            v = t.as_long()
            r = (v, v)
        elif t.decl().kind() == z3.Z3_OP_UNINTERPRETED:
            r = self.I.cp_range.get(k, (0, (1 << t.size()) - 1))
        elif t.decl().kind() == z3.Z3_OP_ITE:
            ch = t.children()
            a, b = self.bval(ch[1])
            x, y = self.bval(ch[2])
            r = (min(a, x), max(b, y))
        else:
            r = (0, (1 << t.size()) - 1)
        self.bcache[k] = r
        self.keep.append(t)
        return r

    # ---- conditions -> True | False | None
    def tri(self, c):
        k = c.get_id()
        if k in self.tcache:
            return self.tcache[k]
        r = self._tri(c)
        self.tcache[k] = r
        self.keep.append(c)
        return r

    def _tri(self, c):
        if z3.is_true(c):
            return True
        if z3.is_false(c):
            return False
        d = c.decl().kind()
        if c.num_args() > 6:
            return None      # large table predicates: leave to the solver
        ch = c.children()
        if d == z3.Z3_OP_NOT:
            r = self.tri(ch[0])
            return None if r is None else (not r)
        if d == z3.Z3_OP_AND:
            unk = False
            for x in ch:
                r = self.tri(x)
                if r is False:
                    return False
                if r is None:
                    unk = True
            return None if unk else True
        if d == z3.Z3_OP_OR:
            unk = False
            for x in ch:
                r = self.tri(x)
                if r is True:
                    return True
                if r is None:
                    unk = True
            return None if unk else False
        if d == z3.Z3_OP_ITE and len(ch) == 3 and z3.is_bool(ch[1]):
            g = self.tri(ch[0])
            if g is True:
                return self.tri(ch[1])
            if g is False:
                return self.tri(ch[2])
            a, b = self.tri(ch[1]), self.tri(ch[2])
            return a if a == b and a is not None else None
        if len(ch) != 2:
            return None
        x, y = ch
        if z3.is_int(x):
            if d in (z3.Z3_OP_LE, z3.Z3_OP_LT, z3.Z3_OP_GE, z3.Z3_OP_GT, z3.Z3_OP_EQ):
                a, b = self.ival(x)
                p, q = self.ival(y)
                if d == z3.Z3_OP_GE:
                    a, b, p, q, d = p, q, a, b, z3.Z3_OP_LE
                elif d == z3.Z3_OP_GT:
                    a, b, p, q, d = p, q, a, b, z3.Z3_OP_LT
                if d == z3.Z3_OP_LE:
                    if b <= p:
                        return True
                    if a > q:
                        return False
                elif d == z3.Z3_OP_LT:
                    if b < p:
                        return True
                    if a >= q:
                        return False
                else:
                    if b < p or q < a:
                        return False
                    if a == b == p == q:
                        return True
            return None
        if z3.is_bv(x):
            if d in (z3.Z3_OP_ULEQ, z3.Z3_OP_ULT, z3.Z3_OP_UGEQ, z3.Z3_OP_UGT, z3.Z3_OP_EQ):
                a, b = self.bval(x)
                p, q = self.bval(y)
                if d == z3.Z3_OP_UGEQ:
                    a, b, p, q, d = p, q, a, b, z3.Z3_OP_ULEQ
                elif d == z3.Z3_OP_UGT:
                    a, b, p, q, d = p, q, a, b, z3.Z3_OP_ULT
                if d == z3.Z3_OP_ULEQ:
                    if b <= p:
                        return True
                    if a > q:
                        return False
                elif d == z3.Z3_OP_ULT:
                    if b < p:
                        return True
                    if a >= q:
                        return False
                else:
                    if b < p or q < a:
                        return False
                    if a == b == p == q:
                        return True
            return None
        return None
