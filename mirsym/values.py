"""Value model of the MIR interpreter: concrete structure, symbolic scalars.

scalars
  usize/u64/...   Python int            | z3 Int term (range constraints are added where the term is created)
  char / u8       Python int            | z3 BitVec(32) term
  bool            Python bool           | z3 Bool term
  f64             Python float          | SymF (exact rational over z3 Int terms) | SymFP (z3 Float64 term)
structure (always concrete)
  &str            Str(buffer, byte-start, byte-end)   buffer = StrBuf of (code point, utf-8 length) pairs
  String          OString (mutable list of chars)
  Vec<T>          RVec;  &[T] / [T; n]  Slice(list, a, b)
  struct/tuple/closure  Agg(name, fields);  enum  Enum(type, variant index, fields)
  references      Ptr(container, key)  (fat references -- Str, Slice -- are their own pointers)
"""
import z3

U64 = (1 << 64) - 1
TWO53 = 1 << 53


class Panic(Exception):
    """the executed code panics (MIR assert failed, unwrap on None, slice out of range, ...)"""


class Infeasible(Exception):
    pass


class OutOfBounds(Exception):
    """path left the stated encoding bounds (e.g. exact-f64 magnitude); counted, not claimed"""


class Ptr:
    __slots__ = ('o', 'k')

    def __init__(s, o, k):
        s.o = o
        s.k = k

    def get(s):
        return s.o[s.k]

    def set(s, v):
        s.o[s.k] = v

    def __repr__(s):
        return 'Ptr(%r)' % (s.k,)


class Agg:
    __slots__ = ('name', 'f')

    def __init__(s, name, f):
        s.name = name
        s.f = f

    def __repr__(s):
        return '%s%r' % (s.name, s.f)


class Enum:
    __slots__ = ('ty', 'v', 'f')

    def __init__(s, ty, v, f):
        s.ty = ty
        s.v = v
        s.f = f

    def __repr__(s):
        return '%s#%d%r' % (s.ty, s.v, s.f)


def Some(x):
    return Enum('Option', 1, [x])


def NONE():
    return Enum('Option', 0, [])


class MByte:
    """k-th byte of a multi-byte character; `value()` is its UTF-8 byte as an int or a 32-bit term of the code point"""
    __slots__ = ('ch', 'k', 'n')

    def __init__(s, ch, k, n):
        s.ch = ch
        s.k = k
        s.n = n

    def value(s):
        cp = s.ch[0]
        n, k = s.n, s.k
        shift = 6 * (n - 1 - k)
        if not isinstance(cp, z3.ExprRef):
            if k == 0:
                lead = {2: 0xC0, 3: 0xE0, 4: 0xF0}[n]
                return lead | (cp >> shift)
            return 0x80 | ((cp >> shift) & 0x3F)
        part = z3.LShR(cp, shift) if shift else cp
        if k == 0:
            lead = {2: 0xC0, 3: 0xE0, 4: 0xF0}[n]
            return z3.BitVecVal(lead, 32) | part
        return z3.BitVecVal(0x80, 32) | (part & z3.BitVecVal(0x3F, 32))


class StrBuf:
    """immutable character buffer; chars = [(cp, nbytes)]"""

    def __init__(s, chars, origin=None):
        s.chars = list(chars)
        s.off = [0]
        for _, nb in s.chars:
            s.off.append(s.off[-1] + nb)
        s.idx = {o: i for i, o in enumerate(s.off)}
        s.origin = origin


class Str:
    __slots__ = ('b', 's', 'e')

    def __init__(s, b, st, e):
        s.b = b
        s.s = st
        s.e = e

    def len(s):
        return s.e - s.s

    def chars(s):
        b = s.b
        return b.chars[b.idx[s.s]:b.idx[s.e]]

    def sub(s, a, b):
        """byte offsets relative to this slice; Panic when not on a char boundary / out of range"""
        if not (0 <= a <= b <= s.len()) or (s.s + a) not in s.b.idx or (s.s + b) not in s.b.idx:
            raise Panic('str slice [%s..%s] of len %d out of range or not on a char boundary' % (a, b, s.len()))
        return Str(s.b, s.s + a, s.s + b)

    def is_boundary(s, a):
        return 0 <= a <= s.len() and (s.s + a) in s.b.idx

    def __repr__(s):
        return 'Str(%s)' % show_chars(s.chars())


def show_chars(cs):
    return ''.join(chr(c) if isinstance(c, int) else '?' for c, _ in cs).encode('unicode_escape').decode()


def utf8len(cp):
    return 1 if cp < 0x80 else 2 if cp < 0x800 else 3 if cp < 0x10000 else 4


def mkstr(text, origin='static'):
    chars = [(ord(c), utf8len(ord(c))) for c in text]
    return Str(StrBuf(chars, origin), 0, sum(nb for _, nb in chars))


def str_of_chars(chars, origin=None):
    b = StrBuf(chars, origin)
    return Str(b, 0, b.off[-1])


class OString:
    """String: owned, mutable"""
    __slots__ = ('chars',)

    def __init__(s, chars=None):
        s.chars = list(chars or [])

    def as_str(s):
        return str_of_chars(s.chars, origin=s)

    def blen(s):
        return sum(nb for _, nb in s.chars)

    def __repr__(s):
        return 'String(%s)' % show_chars(s.chars)


class RVec:
    __slots__ = ('l',)

    def __init__(s, l=None):
        s.l = list(l or [])

    def __getitem__(s, i):
        return s.l[i]

    def __setitem__(s, i, v):
        s.l[i] = v

    def __repr__(s):
        return 'Vec%r' % (s.l,)


class Slice:
    __slots__ = ('l', 'a', 'b')

    def __init__(s, l, a, b):
        s.l = l
        s.a = a
        s.b = b

    def items(s):
        return s.l[s.a:s.b]

    def __getitem__(s, i):
        return s.l[s.a + i]

    def __setitem__(s, i, v):
        s.l[s.a + i] = v

    def __len__(s):
        return s.b - s.a

    def __repr__(s):
        return 'Slice[%d..%d]%r' % (s.a, s.b, s.items())


class SymF:
    """f64 carried exactly as num/den; num is a z3 Int term (or Python int), den a positive Python int"""
    __slots__ = ('e', 'den')

    def __init__(s, e, den=1):
        s.e = e
        s.den = den

    def __repr__(s):
        return 'SymF(%s/%d)' % (s.e, s.den)


class SymFP:
    """f64 as a z3 Float64 term"""
    __slots__ = ('t',)

    def __init__(s, t):
        s.t = t


def deref(v):
    while isinstance(v, Ptr):
        v = v.get()
    return v


def is_sym(x):
    return isinstance(x, z3.ExprRef)


def copyval(v):
    """semantic copy of a Copy value (aggregates are mutable Python objects)"""
    if isinstance(v, Agg):
        return Agg(v.name, [copyval(x) for x in v.f])
    if isinstance(v, Enum):
        return Enum(v.ty, v.v, [copyval(x) for x in v.f])
    return v


def bits_of(ty):
    ty = ty.strip()
    return {'usize': 64, 'u64': 64, 'i64': 64, 'isize': 64, 'u32': 32, 'i32': 32, 'char': 32, 'u8': 8, 'i8': 8,
            'u16': 16, 'i16': 16, 'u128': 128, 'i128': 128, 'bool': 1}.get(ty)


# ---- scalar helpers (work on Python values and z3 terms alike)

def lift2(x, y):
    """bring a (python, z3) pair to a common z3 sort"""
    xs, ys = is_sym(x), is_sym(y)
    if xs and not ys:
        if z3.is_bv(x):
            y = z3.BitVecVal(int(y), x.size())
        elif z3.is_int(x):
            y = z3.IntVal(int(y))
        elif z3.is_bool(x):
            y = z3.BoolVal(bool(y))
    elif ys and not xs:
        if z3.is_bv(y):
            x = z3.BitVecVal(int(x), y.size())
        elif z3.is_int(y):
            x = z3.IntVal(int(x))
        elif z3.is_bool(y):
            x = z3.BoolVal(bool(x))
    elif xs and ys:
        if z3.is_bv(x) and z3.is_int(y):
            x = z3.BV2Int(x, False)
        elif z3.is_int(x) and z3.is_bv(y):
            y = z3.BV2Int(y, False)
    return x, y


def v_eq(x, y):
    if not is_sym(x) and not is_sym(y):
        return x == y
    x, y = lift2(x, y)
    return x == y


def v_ne(x, y):
    r = v_eq(x, y)
    return (not r) if isinstance(r, bool) else z3.Not(r)


def v_lt(x, y):
    if not is_sym(x) and not is_sym(y):
        return x < y
    x, y = lift2(x, y)
    return z3.ULT(x, y) if z3.is_bv(x) else x < y


def v_le(x, y):
    if not is_sym(x) and not is_sym(y):
        return x <= y
    x, y = lift2(x, y)
    return z3.ULE(x, y) if z3.is_bv(x) else x <= y


def v_and(*a):
    out = []
    for x in a:
        if isinstance(x, bool):
            if not x:
                return False
        else:
            out.append(x)
    if not out:
        return True
    return out[0] if len(out) == 1 else z3.And(*out)


def v_or(*a):
    out = []
    for x in a:
        if isinstance(x, bool):
            if x:
                return True
        else:
            out.append(x)
    if not out:
        return False
    return out[0] if len(out) == 1 else z3.Or(*out)


def v_not(x):
    return (not x) if isinstance(x, bool) else z3.Not(x)


def v_ite(c, a, b):
    if isinstance(c, bool):
        return a if c else b
    a, b = lift2(a, b)
    if not is_sym(a):
        if isinstance(a, bool):
            a, b = z3.BoolVal(a), z3.BoolVal(b)
        else:
            a, b = z3.IntVal(a), z3.IntVal(b)
    return z3.If(c, a, b)


def v_add(x, y):
    if not is_sym(x) and not is_sym(y):
        return x + y
    x, y = lift2(x, y)
    return x + y


def v_sub(x, y):
    if not is_sym(x) and not is_sym(y):
        return x - y
    x, y = lift2(x, y)
    return x - y


def v_sum(xs):
    t = 0
    for x in xs:
        t = v_add(t, x)
    return t
