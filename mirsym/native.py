"""Client for the native runner (/verif/native): the real, normally compiled textwrap."""
import os
import subprocess

VERIF = os.path.dirname(os.path.dirname(os.path.abspath(__file__)))


def hexs(s):
    if isinstance(s, str):
        s = s.encode('utf-8')
    return s.hex() if s else '-'


def unhex(h):
    return '' if h == '-' else bytes.fromhex(h).decode('utf-8')


class NativeError(Exception):
    pass


class Native:
    """one persistent runner process; profile = debug | release; features = full | nd"""

    def __init__(self, features='full', profile='debug'):
        d = 'native' if features == 'full' else 'native_nd'
        b = 'vnative' if features == 'full' else 'vnative_nd'
        self.path = os.path.join(os.environ.get('VERIF_NATIVE_BASE', VERIF), d, 'target', profile, b)
        self.features = features
        self.profile = profile
        self.p = None
        self.calls = 0

    def start(self):
        # binary pipes wrapped by hand: subprocess' text mode reads with universal newlines, so a CR inside a reply
        # (a panic message quoting the text) would be taken for a line end and desynchronise the protocol
        self.p = subprocess.Popen([self.path], stdin=subprocess.PIPE, stdout=subprocess.PIPE, bufsize=0)
        import io
        self.p.stdin = io.TextIOWrapper(self.p.stdin, encoding='utf-8', newline='\n', line_buffering=True)
        self.p.stdout = io.TextIOWrapper(self.p.stdout, encoding='utf-8', errors='replace', newline='\n')

    def call(self, line):
        if self.p is None or self.p.poll() is not None:
            self.start()
        self.calls += 1
        try:
            self.p.stdin.write(line + '\n')
            self.p.stdin.flush()
            r = self.p.stdout.readline()
        except BrokenPipeError:
            r = ''
        if not r:
            # process died (abort / stack overflow): report as a crash, restart lazily
            self.p = None
            return ('CRASH', 'native runner died')
        r = r.rstrip('\n')
        if r.startswith('OK'):
            return ('OK', r[2:].strip())
        if r.startswith('PANIC'):
            return ('PANIC', r[6:])
        raise NativeError(r)

    def close(self):
        if self.p is not None:
            try:
                self.p.stdin.close()
                self.p.wait(timeout=5)
            except Exception:
                self.p.kill()
            self.p = None


def opts_tokens(o):
    """o: dict width, le ('LF'|'CRLF'), ii, si (python str), bw (bool), algo ('F'|'O'|('O',nl,ov,slf,slp,hy)),
    sep ('A'|'U'), split ('N'|'H'|('C', {word: [points]}))"""
    algo = o.get('algo', 'O')
    if isinstance(algo, (tuple, list)):
        algo = 'O:' + ':'.join(str(x) for x in algo[1:])
    sp = o.get('split', 'H')
    if isinstance(sp, (tuple, list)):
        ents = ['%s=%s' % (hexs(w), ','.join(str(p) for p in pts)) for w, pts in sorted(sp[1].items())]
        sp = 'C:' + '/'.join(ents) if ents else 'C'
    return '%d %s %s %s %d %s %s %s' % (o['width'], o.get('le', 'LF'), hexs(o.get('ii', '')), hexs(o.get('si', '')),
                                          1 if o.get('bw', True) else 0, algo, o.get('sep', 'A'), sp)


def parse_lines(resp):
    """'n B0:hex O:hex X:hex' -> [(kind, off|None, text)]"""
    t = resp.split()
    out = []
    for e in t[1:]:
        kind, h = e.split(':', 1)
        if kind.startswith('B'):
            out.append(('B', int(kind[1:]), unhex(h)))
        else:
            out.append((kind, None, unhex(h)))
    return out


def parse_words(resp):
    t = resp.split()
    out = []
    for e in t[1:]:
        off, w, ws, p, width = e.split(':')
        out.append({'off': int(off), 'word': unhex(w), 'ws': unhex(ws), 'pen': unhex(p), 'width': int(width)})
    return out


def words_token(ws):
    if not ws:
        return '-'
    return ';'.join('%s:%s:%s:%d' % (hexs(w['word']), hexs(w['ws']), hexs(w['pen']), w['width']) for w in ws)


def f64_token(x):
    import struct
    return 'x%016x' % struct.unpack('<Q', struct.pack('<d', float(x)))[0]


def frags_token(frs):
    if not frs:
        return '-'
    return ';'.join(':'.join(f64_token(v) for v in f) for f in frs)
