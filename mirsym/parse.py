"""Parser for `rustc -Zunpretty=mir` text.

Produces Function objects whose statements / terminators are small tuples that
the interpreter (interp.py) executes.  Anything the parser does not recognise
raises Unsupported, which the driver reports as INCONCLUSIVE (never as a
violation).
"""
import re


class Unsupported(Exception):
    pass


class Fn:
    __slots__ = ('name', 'kind', 'sig', 'locals', 'blocks', 'argtypes', 'rettype', 'nargs', 'raw', 'src', 'debug')

    def __init__(self, name, kind):
        self.name = name
        self.kind = kind
        self.locals = {}
        self.blocks = {}
        self.argtypes = []
        self.rettype = None
        self.nargs = 0
        self.raw = {}
        self.debug = {}


_CHAR_RE = re.compile(r"'(\\u\{[0-9a-fA-F]+\}|\\.|[^\\'])'")


def split_top(s, sep=','):
    """split at top-level separators, respecting () [] {} <> and literals"""
    out = []
    depth = 0
    cur = []
    i = 0
    n = len(s)
    while i < n:
        c = s[i]
        if c == '"':
            j = i + 1
            while j < n and s[j] != '"':
                if s[j] == '\\':
                    j += 1
                j += 1
            cur.append(s[i:j + 1])
            i = j + 1
            continue
        if c == "'":
            m = _CHAR_RE.match(s, i)
            if m:
                cur.append(m.group(0))
                i = m.end()
                continue
        if c in '([{':
            depth += 1
        elif c == '<':
            if not (i + 1 < n and s[i + 1] in ' ='):
                depth += 1
        elif c in ')]}':
            depth -= 1
        elif c == '>':
            if i > 0 and s[i - 1] not in '-=' and not (i + 1 < n and s[i + 1] == '='):
                depth -= 1
        if c == sep and depth == 0:
            out.append(''.join(cur).strip())
            cur = []
        else:
            cur.append(c)
        i += 1
    t = ''.join(cur).strip()
    if t:
        out.append(t)
    return out


def match_paren_back(s, end):
    """s[end] == ')' ; return index of matching '(' scanning backwards (literals are not expected to contain parens
    except char/str consts, which we skip roughly)"""
    d = 0
    j = end
    in_str = False
    while j >= 0:
        c = s[j]
        if c == '"' and (j == 0 or s[j - 1] != '\\'):
            in_str = not in_str
        elif not in_str:
            if c == ')':
                # char literal ')' ?
                if j >= 1 and j + 1 < len(s) and s[j - 1] == "'" and s[j + 1] == "'":
                    j -= 1
                    continue
                d += 1
            elif c == '(':
                if j >= 1 and j + 1 < len(s) and s[j - 1] == "'" and s[j + 1] == "'":
                    j -= 1
                    continue
                d -= 1
                if d == 0:
                    return j
        j -= 1
    raise Unsupported('unbalanced parens: ' + s)


# ---------------------------------------------------------------- places

def parse_place(p):
    """-> (local:int, projs:tuple)   proj = ('deref',) | ('field', k, ty) | ('downcast', name) | ('index', local)
    | ('constindex', k, from_end)"""
    p = p.strip()
    node, i = _pl(p, 0)
    if i != len(p):
        raise Unsupported('place tail: ' + p)
    return node


def _pl(p, i):
    if p[i] == '_':
        m = re.compile(r'_(\d+)').match(p, i)
        node = (int(m.group(1)), ())
        i = m.end()
    elif p[i] == '(':
        i += 1
        if p[i] == '*':
            inner, i = _pl(p, i + 1)
            node = (inner[0], inner[1] + (('deref',),))
        else:
            inner, i = _pl(p, i)
            if p.startswith(' as ', i):
                j = p.index(')', i)
                name = p[i + 4:j]
                node = (inner[0], inner[1] + (('downcast', name),))
                i = j
            elif p[i] == '.':
                m = re.compile(r'\.(\d+): ').match(p, i)
                k = int(m.group(1))
                i = m.end()
                d = 1
                j = i
                while True:
                    c = p[j]
                    if c in '([':
                        d += 1
                    elif c in ')]':
                        d -= 1
                        if d == 0:
                            break
                    j += 1
                ty = p[i:j]
                i = j
                node = (inner[0], inner[1] + (('field', k, ty),))
            else:
                raise Unsupported('place: ' + p)
        if p[i] != ')':
            raise Unsupported('place paren: ' + p)
        i += 1
    else:
        raise Unsupported('place: ' + p)
    while i < len(p) and p[i] == '[':
        j = p.index(']', i)
        inner = p[i + 1:j]
        m = re.match(r'_(\d+)$', inner)
        if m:
            node = (node[0], node[1] + (('index', int(m.group(1))),))
        else:
            m = re.match(r'(-?)(\d+) of (\d+)$', inner)
            m2 = re.match(r'(\d*):(?:-(\d+))?$', inner)
            m3 = re.match(r'(\d+)\.\.(\d+)$', inner)
            if m:
                node = (node[0], node[1] + (('constindex', int(m.group(2)), bool(m.group(1))),))
            elif m2:      # slice pattern `[a, rest @ .., z]`: Subslice { from, to, from_end: true }
                node = (node[0], node[1] + (('subslice', int(m2.group(1) or 0), int(m2.group(2) or 0), True),))
            elif m3:
                node = (node[0], node[1] + (('subslice', int(m3.group(1)), int(m3.group(2)), False),))
            else:
                raise Unsupported('index proj: ' + p)
        i = j + 1
    return node, i


# ---------------------------------------------------------------- operands / rvalues

CAST_RE = re.compile(r'^(.*) as (.*) \((IntToFloat|IntToInt|FloatToInt|FloatToFloat|PtrToPtr|Transmute|'
                     r'PointerCoercion\(.*\)|PointerExposeProvenance|PointerWithExposedProvenance|FnPtrToPtr)\)$')


def parse_operand(o):
    o = o.strip()
    if o.startswith('no_retag '):
        o = o[9:]
    if o.startswith('copy '):
        return ('copy', parse_place(o[5:]))
    if o.startswith('move '):
        return ('move', parse_place(o[5:]))
    if o.startswith('const '):
        return ('const', o[6:])
    if re.match(r'^[A-Za-z_<]', o):
        # function items / unit constants are printed without the `const` keyword
        return ('const', o)
    raise Unsupported('operand: ' + o)


BINOPS = {'Add', 'Sub', 'Mul', 'Div', 'Rem', 'Eq', 'Ne', 'Lt', 'Le', 'Gt', 'Ge', 'BitAnd', 'BitOr', 'BitXor', 'Shl',
          'Shr', 'AddWithOverflow', 'SubWithOverflow', 'MulWithOverflow', 'AddUnchecked', 'SubUnchecked',
          'MulUnchecked', 'Offset', 'Cmp', 'ShlUnchecked', 'ShrUnchecked'}
UNOPS = {'Not', 'Neg', 'PtrMetadata'}


def parse_rvalue(r):
    r = r.strip()
    if r.startswith('no_retag '):
        r = r[9:]
    m = CAST_RE.match(r)
    if m:
        return ('cast', parse_operand(m.group(1)), m.group(2), m.group(3))
    if r.startswith(('copy ', 'move ', 'const ')):
        return ('use', parse_operand(r))
    if r.startswith('&mut '):
        return ('ref', parse_place(r[5:]), True)
    if r.startswith('&raw '):
        return ('ref', parse_place(re.sub(r'^&raw (const|mut) (\(fake\) )?', '', r)), True)
    if r.startswith('&'):
        rest = r[1:]
        rest = re.sub(r"^'\w+ ", '', rest)
        rest = re.sub(r'^(fake shallow |fake |shallow )', '', rest)
        return ('ref', parse_place(rest), False)
    m = re.match(r'^(\w+)\((.*)\)$', r)
    if m and m.group(1) in BINOPS:
        a = split_top(m.group(2))
        return ('binop', m.group(1), parse_operand(a[0]), parse_operand(a[1]))
    if m and m.group(1) in UNOPS:
        return ('unop', m.group(1), parse_operand(m.group(2)))
    if r.startswith('discriminant(') and r.endswith(')'):
        return ('discr', parse_place(r[13:-1]))
    if r.startswith('Len(') and r.endswith(')'):
        return ('len', parse_place(r[4:-1]))
    if r.startswith('(') and r.endswith(')'):
        inner = r[1:-1].strip()
        if inner == '':
            return ('tuple', [])
        parts = split_top(inner)
        return ('tuple', [parse_operand(x) for x in parts])
    if r == '()':
        return ('tuple', [])
    if r.startswith('[') and r.endswith(']'):
        inner = r[1:-1]
        parts = split_top(inner, ';')
        if len(parts) == 2:
            return ('repeat', parse_operand(parts[0]), parts[1])
        return ('array', [parse_operand(x) for x in split_top(inner)])
    m = re.match(r'^(\{closure@[^}]*\}) \{(.*)\}$', r)
    if m:
        fields = [x.split(': ', 1) for x in split_top(m.group(2))] if m.group(2).strip() else []
        return ('closure', m.group(1), [(k, parse_operand(v)) for k, v in fields])
    if r.startswith('{closure@') and r.endswith('}') and ' ' not in r[r.index('}'):]:
        return ('closure', r, [])
    m = re.match(r'^([\w:<>\', \[\]&()]+?) \{ (.*) \}$', r)
    if m:
        fields = [x.split(': ', 1) for x in split_top(m.group(2))]
        return ('struct', m.group(1), [(k, parse_operand(v)) for k, v in fields])
    m = re.match(r'^([\w:<>\', \[\]&()]+?) \{\s*\}$', r)
    if m:
        return ('struct', m.group(1), [])
    # enum variant / tuple struct ctor:  Path::<..>::Variant(args)  |  Path::Variant  | Name::<'_>(args)
    if r.endswith(')'):
        j = match_paren_back(r, len(r) - 1)
        head = r[:j]
        args = [parse_operand(x) for x in split_top(r[j + 1:-1])]
        return ('ctor', head, args)
    if re.match(r'^[A-Za-z_<]', r):
        return ('ctor', r, [])
    raise Unsupported('rvalue: ' + r)


# ---------------------------------------------------------------- statements / terminators

def parse_stmt(s):
    if s.startswith(('StorageLive', 'StorageDead', 'ConstEvalCounter', 'Retag', 'FakeRead', 'PlaceMention',
                     'AscribeUserType', 'Coverage', 'nop', 'BackwardIncompatibleDropHint')):
        return None
    if s.startswith('Deinit('):
        return None
    if s.startswith('assume('):
        return ('assume', parse_operand(s[7:-2]))
    m = re.match(r'^discriminant\((.*)\) = (\d+);$', s)
    if m:
        return ('setdiscr', parse_place(m.group(1)), int(m.group(2)))
    if ' = ' not in s:
        raise Unsupported('stmt: ' + s)
    lhs, rhs = s[:-1].split(' = ', 1)
    return ('assign', parse_place(lhs), parse_rvalue(rhs), lhs)


def parse_term(t):
    if t == 'return;':
        return ('return',)
    if t == 'unreachable;':
        return ('unreachable',)
    if t.startswith('resume') or t.startswith('terminate') or t.startswith('abort'):
        return ('resume',)
    m = re.match(r'^goto -> bb(\d+);$', t)
    if m:
        return ('goto', int(m.group(1)))
    m = re.match(r'^switchInt\((.*)\) -> \[(.*)\];$', t)
    if m:
        targets = []
        other = None
        for tg in m.group(2).split(', '):
            k, b = tg.split(': ')
            if k == 'otherwise':
                other = int(b[2:])
            else:
                targets.append((int(k), int(b[2:])))
        return ('switch', parse_operand(m.group(1)), targets, other)
    m = re.match(r'^assert\((!?)(.*?), "((?:[^"\\]|\\.)*)"(.*)\) -> \[success: bb(\d+), unwind.*\];$', t)
    if m:
        return ('assert', bool(m.group(1)), parse_operand(m.group(2)), m.group(3), int(m.group(5)))
    m = re.match(r'^drop\((.*)\) -> \[return: bb(\d+), unwind.*\];$', t)
    if m:
        return ('drop', parse_place(m.group(1)), int(m.group(2)))
    m = re.match(r'^(.*?) = (.*) -> \[return: bb(\d+), unwind.*\];$', t)
    if m:
        dest, call, nb = m.group(1), m.group(2), int(m.group(3))
        j = match_paren_back(call, len(call) - 1)
        callee = call[:j]
        argstr = call[j + 1:-1]
        args = [parse_operand(a) for a in split_top(argstr)]
        if callee.startswith(('move ', 'copy ')):
            return ('callptr', parse_place(dest), parse_operand(callee), args, nb)
        return ('call', parse_place(dest), callee, args, nb)
    m = re.match(r'^(.*?) = (.*) -> (?:unwind.*|bb\d+);$', t)
    if m:  # diverging call
        call = m.group(2)
        j = match_paren_back(call, len(call) - 1)
        return ('call', parse_place(m.group(1)), call[:j], [parse_operand(a) for a in split_top(call[j + 1:-1])], None)
    raise Unsupported('terminator: ' + t)


def _parse_body(f, body):
    cur = None
    for l in body:
        s = l.strip()
        if s.startswith('debug '):
            m = re.match(r'debug (\w+) => _(\d+);', s)
            if m:
                f.debug.setdefault(m.group(1), int(m.group(2)))
            continue
        if not s or s.startswith('scope ') or s == '}' or s.startswith('//'):
            if s == '}' and cur is not None and l.startswith('    }') and not l.startswith('     '):
                cur = None
            continue
        if cur is None:
            m = re.match(r'let (mut )?_(\d+): (.*);$', s)
            if m:
                f.locals[int(m.group(2))] = m.group(3)
                continue
        m = re.match(r'bb(\d+)( \(cleanup\))?: \{$', s)
        if m:
            cur = int(m.group(1))
            f.raw[cur] = []
            continue
        if cur is not None:
            f.raw[cur].append(s)


def parse_items(text):
    """-> dict name -> Fn (first = optimised MIR; CTFE duplicates are skipped)"""
    items = {}
    lines = text.split('\n')
    i = 0
    n = len(lines)
    skip_next = False
    while i < n:
        l = lines[i]
        if l.startswith('// MIR FOR CTFE'):
            skip_next = True
            i += 1
            continue
        if (l.startswith('fn ') or l.startswith('const ') or l.startswith('static ')) and l.endswith('{'):
            j = i + 1
            while lines[j] != '}':
                j += 1
            body = lines[i + 1:j]
            kind = l.split(' ')[0]
            if kind == 'fn':
                hdr = l[3:-2]
                k = re.search(r'\((_1: |\) -> |\)$)', hdr)
                name = hdr[:k.start()]
                sig = hdr[k.start():]
                f = Fn(name, 'fn')
                if ') -> ' in sig:
                    args = sig[1:sig.rfind(') -> ')]
                    f.rettype = sig[sig.rfind(') -> ') + 5:]
                else:
                    args = sig[1:-1]
                    f.rettype = '()'
                f.argtypes = [a.split(': ', 1)[1] for a in split_top(args)] if args.strip() else []
                f.nargs = len(f.argtypes)
            else:
                hdr = l[len(kind) + 1:-4]
                mm = re.match(r'(.*?): (.*)$', hdr)
                name = mm.group(1)
                f = Fn(name, 'const')
                f.rettype = mm.group(2)
            _parse_body(f, body)
            if skip_next:
                skip_next = False
            else:
                items.setdefault(name, f)
            i = j + 1
            continue
        m = re.match(r'^(const|static) (.*?): (.*?) = const (.*);$', l)
        if m:
            f = Fn(m.group(2), 'constval')
            f.rettype = m.group(3)
            f.raw = {0: ['_0 = const %s;' % m.group(4), 'return;']}
            f.locals = {0: m.group(3)}
            items.setdefault(m.group(2), f)
        i += 1
    return items


def compile_fn(f):
    """parse raw statement strings into tuples (lazily, once)"""
    if f.blocks:
        return
    whole = None
    for bb, raw in f.raw.items():
        stmts = []
        for s in raw[:-1]:
            st = parse_stmt(s)
            if st is not None:
                if st[0] == 'assign' and st[2][0] == 'closure':
                    # rustc prints a closure aggregate by zipping the *distinct captured variables* with the captured
                    # places, so with disjoint field captures (`self.a` and `self.b`) the last operands are missing
                    # from the text.  They are the temporaries assigned earlier in this block that nothing else in
                    # the function mentions; recorded here, used by the interpreter only when the closure body
                    # needs more upvars than were printed (and only if the count then matches exactly).
                    if whole is None:
                        whole = '\n'.join('\n'.join(r) for r in f.raw.values())
                    extra = []
                    for prev in stmts:
                        if prev[0] == 'assign' and not prev[1][1]:
                            n = prev[1][0]
                            if len(re.findall(r'\b_%d\b' % n, whole)) == 1:
                                extra.append(('move', (n, ())))
                    st = st + (extra,)
                stmts.append(st)
        f.blocks[bb] = (stmts, parse_term(raw[-1]), raw)
