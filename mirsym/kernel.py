"""Engine C — kernel mode: one loop iteration of a MIR function from an arbitrary symbolic pre-state.

Slices and vectors whose *length* is symbolic are represented by abstract objects; only the operations the loop
performs on them are supported.  Used for inductive-step claims that hold for inputs of any length (the invariant
is stated in the harness; a counterexample from a pre-state that violates the real reachable-state invariant would
mean the invariant is too weak, not that the code is wrong, so kernel counterexamples are reported only after the
bounded runs of engine A / native replay reproduce them).
"""
import z3

from parse import Unsupported, compile_fn
from values import *
from models import Models


class AbsFrags:
    """&[T] of symbolic length n; element k is a fresh symbolic fragment created on demand"""

    def __init__(s, I, n, mk_frag):
        s.I = I
        s.n = n
        s.mk = mk_frag
        s.elems = {}

    def elem(s, idx):
        k = idx.get_id() if is_sym(idx) else idx
        if k not in s.elems:
            s.elems[k] = (idx, s.mk(len(s.elems)))
        return s.elems[k][1]

    def abs_len(s):
        return s.n


class AbsSub:
    """&fragments[a..b] with symbolic bounds"""

    def __init__(s, base, a, b):
        s.base = base
        s.a = a
        s.b = b


class AbsEnumIter:
    """Enumerate<slice::Iter> over an AbsFrags, at symbolic position pos"""

    def __init__(s, base, pos):
        s.base = base
        s.pos = pos

    def next(s, I):
        if I.branch(v_lt(s.pos, s.base.n)):
            idx = s.pos
            s.pos = v_add(s.pos, 1)
            return Some(Agg('()', [idx, Ptr([s.base.elem(idx)], 0)]))
        return NONE()


class AbsMinima:
    """Vec<(usize, f64)> of symbolic length; entry j is created on demand by mk(j) (which states the contract)"""

    def __init__(s, I, length, mk):
        s.I = I
        s.length = length
        s.mk = mk
        s.elems = {}

    def abs_len(s):
        return s.length

    def elem(s, idx):
        k = idx.get_id() if is_sym(idx) else idx
        if k not in s.elems:
            s.elems[k] = s.mk(idx)
        return s.elems[k]


class AbsLines:
    """Vec<&[T]> of symbolic length k; pushes made during the step are recorded"""

    def __init__(s, k):
        s.k0 = k
        s.pushed = []
        s.reversed = 0

    def length(s):
        return v_add(s.k0, len(s.pushed))


class AbsWidths:
    """&[f64] of symbolic length L with symbolic entries created on demand; last() is entry L-1"""

    def __init__(s, I, L, mk_val):
        s.I = I
        s.L = L
        s.mk = mk_val
        s.vals = {}

    def at(s, k):
        key = k.get_id() if is_sym(k) else k
        if key not in s.vals:
            s.vals[key] = (k, s.mk(len(s.vals)))
            # entries at provably equal indices are equal
            for kk, (k2, v2) in list(s.vals.items()):
                if kk != key:
                    a, b = s.vals[key][1], v2
                    s.I.add(z3.Implies(v_eq(k, k2), eq_f(a, b)))
        return s.vals[key][1]


def eq_f(a, b):
    if isinstance(a, SymF):
        return a.e == b.e
    return z3.fpEQ(a.t, b.t)


class KernelModels(Models):
    """the normal model table plus behaviour of the abstract containers"""

    def __init__(self, tables, native=None):
        Models.__init__(self, tables, native)
        base_lookup = self.lookup

        def wrap(names_pattern, fn):
            import re
            rx = re.compile(names_pattern)
            self.koverrides.append((rx, fn))
        self.koverrides = []
        K = self

        def orig(I, callee, n):
            return Models.lookup(K, I, callee, n)

        def k_iter(I, s):
            if isinstance(s, AbsFrags):
                return ('absiter', s)
            return None
        wrap(r'^core::slice::<impl \[.*\]>::iter$', k_iter)

        def k_enumerate(I, it):
            if isinstance(it, tuple) and it and it[0] == 'absiter':
                return AbsEnumIter(it[1], 0)
            return None
        wrap(r'^<.* as Iterator>::enumerate$', k_enumerate)

        def k_len(I, v):
            d = deref(v)
            if isinstance(d, AbsLines):
                return d.length()
            return None
        wrap(r'^Vec::len$', k_len)

        def k_push(I, v, x):
            d = deref(v)
            if isinstance(d, AbsLines):
                d.pushed.append(x)
                return Agg('()', [])
            return None
        wrap(r'^Vec::push$', k_push)

        def k_index(I, s, r):
            if isinstance(deref(s), AbsMinima):
                s = deref(s)
                if is_sym(r) or isinstance(r, int):
                    if not I.branch(v_lt(r, s.length)):
                        raise Panic('index out of bounds')
                    return Ptr([s.elem(r)], 0)
                raise Unsupported('kernel: index kind on minima')
            if isinstance(s, AbsFrags):
                r = deref(r)
                nm = r.name
                if nm.endswith('RangeFrom'):
                    a, b = r.f[0], s.n
                elif nm.endswith('Range'):
                    a, b = r.f
                else:
                    raise Unsupported('kernel: slice index kind ' + nm)
                if not I.branch(v_and(v_le(a, b), v_le(b, s.n))):
                    raise Panic('slice index out of range')
                return AbsSub(s, a, b)
            return None
        wrap(r'^<(Vec<.*>|\[.*\]) as Index(Mut)?<.*>>::index(_mut)?$', k_index)

        def k_deref_mut(I, v):
            if isinstance(deref(v), AbsLines):
                return deref(v)
            return None
        wrap(r'^<Vec<.*> as DerefMut>::deref_mut$', k_deref_mut)

        def k_reverse(I, v):
            if isinstance(deref(v), AbsLines):
                deref(v).reversed += 1
                return Agg('()', [])
            return None
        wrap(r'^core::slice::<impl \[.*\]>::reverse$', k_reverse)

        def k_get(I, s, i):
            if isinstance(s, AbsWidths):
                if I.branch(v_lt(i, s.L)):
                    return Some(Ptr([s.at(i)], 0))
                return NONE()
            return None
        wrap(r'^core::slice::<impl \[.*\]>::get$', k_get)

        def k_last(I, s):
            if isinstance(s, AbsWidths):
                if I.branch(v_lt(0, s.L)):
                    return Some(Ptr([s.at(v_sub(s.L, 1))], 0))
                return NONE()
            return None
        wrap(r'^core::slice::<impl \[.*\]>::last$', k_last)

    def lookup(self, I, callee, n):
        base = Models.lookup(self, I, callee, n)
        for rx, fn in self.koverrides:
            if rx.match(n):
                def h(I_, *a, _fn=fn, _base=base, _n=n):
                    r = _fn(I_, *a)
                    if r is not None:
                        return r
                    if _base is None:
                        raise Unsupported('call to unknown function: ' + _n)
                    return _base(I_, *a)
                return h
        return base


def find_loop_head(f, iter_local):
    """block whose terminator calls Iterator::next on (a reference to) the loop's iterator local"""
    compile_fn(f)
    for bb, (stmts, term, raw) in f.blocks.items():
        if term[0] == 'call' and term[2].endswith('as Iterator>::next'):
            # the argument is a &mut to the iterator local, assigned in this very block
            for st in stmts:
                if st[0] == 'assign' and st[2][0] == 'ref' and st[2][1][0] == iter_local:
                    return bb
    raise Unsupported('kernel: loop head of %s not found' % f.name)


def find_block(f, callee_rx, local=None):
    """block whose terminator calls a function matching callee_rx and (optionally) whose statements read `local`"""
    import re
    compile_fn(f)
    rx = re.compile(callee_rx)
    for bb, (stmts, term, raw) in f.blocks.items():
        if term[0] == 'call' and rx.search(term[2]):
            if local is None or re.search(r'\b_%d\b' % local, ' '.join(raw)):
                return bb
    raise Unsupported('kernel: block calling %s not found in %s' % (callee_rx, f.name))
