#!/bin/bash
# tools/seedtest.sh <ID> [checks...]  -- confirm a seeded change produced in /tmp/seed/<ID>, store it under
# /verif/seeded/<ID>/ and run the given checks (default: the property's own) against a scratch copy of /repo + patch.
set -u
ID=$1; shift
CHECKS=${*:-$ID}
W=${SEEDROOT:-/tmp/seed}/$ID
S=/verif/seeded/$ID${SUFFIX:-}
export CARGO_NET_OFFLINE=true
mkdir -p $S
cd $W || exit 1
git diff -- src > $S/patch.diff
cp tests/seed_demo.rs $S/seed_demo.rs
[ -s $S/patch.diff ] || { echo "no source diff"; exit 1; }
# 1. demo fails with the change
cargo test --offline --test seed_demo > $S/demo_with_change.log 2>&1; A=$?
# 2. demo passes without it
git apply -R $S/patch.diff
cargo test --offline --test seed_demo > $S/demo_without_change.log 2>&1; B=$?
git apply $S/patch.diff
# 3. existing suite passes with the change (demo moved away)
mv tests/seed_demo.rs $W.demo.rs
cargo test --offline > $S/suite_with_change.log 2>&1; C=$?
C2=skipped
mv $W.demo.rs tests/seed_demo.rs
echo "demo_with_change_exit=$A (want !=0)  demo_without_change_exit=$B (want 0)  suite_with_change_exit=$C (want 0) suite_nd=$C2"
for f in demo_with_change demo_without_change suite_with_change; do tail -5 $S/$f.log | grep -E "^test result|error" | head -3 > $S/$f.summary; rm -f $S/$f.log; done
# 4. run the checks against a scratch copy of /repo with the patch applied
M=/var/tmp/verif-scratch/seedtree-$ID
rm -rf $M; mkdir -p $M
rsync -a --exclude target --exclude .git /repo/ $M/
(cd $M && patch -p1 -s < $S/patch.diff) || { echo "patch does not apply to /repo"; exit 1; }
cd /verif
: > $S/checks.txt
for c in $CHECKS; do
  VERIF_REPO=$M VERIF_OUT=/var/tmp/verif-scratch/out-$ID timeout 1500 ./check $c --tier ${TIER:-quick} > /var/tmp/verif-scratch/seed-$ID-$c.log 2>&1; R=$?
  echo "check $c exit=$R" | tee -a $S/checks.txt
  grep -E "^VIOLATION|^  clause|^  inputs|^INCONCLUSIVE|^$c " /var/tmp/verif-scratch/seed-$ID-$c.log | cut -c1-400 | head -12 | tee -a $S/checks.txt
done
rm -rf $M /var/tmp/verif-scratch/out-$ID; [ -n "${KEEP_NATIVE:-}" ] || rm -rf /var/tmp/verif-scratch/native-*
echo "A=$A B=$B C=$C C2=$C2" > $S/confirm.txt
