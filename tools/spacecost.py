#!/usr/bin/env python3
import json,sys
e=json.load(open('/verif/evidence/%s.json'%sys.argv[1]))
rows=sorted(e['coverage']['spaces'], key=lambda r:-r['solver_calls'])
print(e['wall_s'], 'total paths', e['coverage']['paths'])
for r in rows[:int(sys.argv[2]) if len(sys.argv)>2 else 12]:
    print(r['paths'], r['solver_calls'], r['wall_s'], {k:v for k,v in r['space'].items() if k not in ('alphabet','alpha')})
