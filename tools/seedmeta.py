#!/usr/bin/env python3
"""tools/seedmeta.py <seed-id> <prop[,prop]> <needs-to-manifest> [strengthening]  -- write seeded/<id>/meta.json from
the files tools/seedtest.sh left there (confirm.txt, checks.txt)."""
import json, sys, os, re
sid, props, needs = sys.argv[1:4]
strength = sys.argv[4] if len(sys.argv) > 4 else 'caught as is'
d = os.path.join(os.path.dirname(os.path.dirname(os.path.abspath(__file__))), 'seeded', sid)
checks = [l.rstrip() for l in open(os.path.join(d, 'checks.txt')) if l.strip()]
caught = [m.group(1) for l in checks for m in [re.match(r'check (\S+) exit=1', l)] if m]
meta = {'property': props.split(','), 'round': 6,
        'origin': 'independent sub-agent given only the text of the property, one-line ideas of the earlier seeds for it '
                  '(to avoid repeats) and a scratch worktree of /repo; nothing from /verif',
        'needs_to_manifest': needs, 'strengthening': strength,
        'confirmed_by_me': {'how': 'demo fails with the change / passes without / existing suite passes with it (cargo test '
                                   '--offline), then ./check against a scratch copy with the patch (VERIF_REPO)',
                            'exit_codes': open(os.path.join(d, 'confirm.txt')).read().strip()},
        'caught_by_checks': caught, 'run': checks}
prev = os.path.join(d, 'first_run.txt')
if os.path.exists(prev):
    meta['first_run'] = [l.rstrip() for l in open(prev) if l.strip()]
json.dump(meta, open(os.path.join(d, 'meta.json'), 'w'), indent=1)
print(sid, 'caught by', caught)
