#!/usr/bin/env python3
"""Regenerates MANIFEST.json from the table below (kept in one place so it stays valid)."""
import json, os
V = os.path.dirname(os.path.dirname(os.path.abspath(__file__)))
props = [json.loads(l) for l in open(os.path.join(V, 'properties.jsonl'))]
CLAIMED = json.load(open(os.path.join(V, 'tools', 'claims.json')))
checks = []
na = []
for p in props:
    c = CLAIMED.get(p['id'])
    if c is None or c.get('not_applicable'):
        na.append({'property_id': p['id'], 'reason': (c or {}).get('not_applicable', 'check under construction; harness not built yet')})
        continue
    checks.append({
        'property_id': p['id'],
        'quick_cmd': './check %s --tier quick' % p['id'],
        'thorough_cmd': './check %s --tier thorough' % p['id'],
        'evidence_file': 'evidence/%s.json' % p['id'],
        'replay_cmd_template': './check %s --replay {path}' % p['id'],
        'engine': 'mirsym',
        'level_claimed': {'category': 'model_checking', 'text': c['level'], 'design_ref': c.get('design_ref', 'DESIGN.md section 8')},
        'level_note': c.get('note', 'trusted: rustc MIR printer, hand-written core/alloc models (validated per run against the native build), extracted Unicode tables, z3'),
        'technique': c.get('technique', 'bounded symbolic execution of rustc MIR (regenerated from /repo each run) with z3 deciding every branch and assertion; counterexamples replayed natively'),
    })
m = {
    'version': 1,
    'setup_cmd': './setup.sh',
    'hooks': {'guard': 'fuzzing',
              'enable': "RUSTFLAGS='--cfg fuzzing' — the upstream cfg already in /repo (src/lib.rs: #[cfg(fuzzing)] pub mod fuzzing); it only exposes wrap_single_line / wrap_single_line_slow_path / fill_slow_path to the native replay runner. The MIR engine reads private items directly and needs no hooks; no source commits were added.",
              'baseline_off_cmd': 'cd /repo && cargo test --workspace --no-fail-fast --offline',
              'source_commits': [], 'add_only': True},
    'engines': [{'name': 'mirsym', 'path': 'mirsym/', 'serves_properties': [c['property_id'] for c in checks],
                 'kind_free_text': 'symbolic interpreter for rustc MIR (-Zunpretty=mir of /repo and of the smawk dependency), concrete structure + symbolic scalars, DFS by decision prefix sharded over 16 processes, z3 (Python API) as the deciding solver; native runner (native/) replays counterexamples and validates interpreter paths against the compiled crate'}],
    'checks': checks,
    'not_applicable': na,
    'notes': 'Solver-based checking of the real code. Every check regenerates the MIR from /repo, explores each stated input space completely (all values of the symbolic scalars), replays counterexamples against the natively compiled crate (debug and release) before printing VIOLATION, and exits 2 (INCONCLUSIVE) rather than 0 on unsupported MIR, solver unknown, model/native disagreement or (quick tier) an unfinished space. The thorough tier has a time budget of 2700 s per check that is a stated bound: when reached, the run prints a NOTE, lists the partly explored spaces in the evidence file and exits 0 if everything explored held. Besides flat N-character inputs every check explores sentence templates (paragraph-sized concrete texts with symbolic positions; DESIGN.md 0.1).'
}
json.dump(m, open(os.path.join(V, 'MANIFEST.json'), 'w'), indent=1)
print('claimed', len(checks), 'not applicable', len(na))
