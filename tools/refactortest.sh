#!/bin/bash
# tools/refactortest.sh <name> <patch.diff> <checks...> -- run checks against a scratch copy of /repo with a
# behaviour-preserving patch applied; every check is expected to exit 0 (no alarm, not even INCONCLUSIVE).
set -u
NAME=$1; PATCH=$2; shift 2
M=/var/tmp/verif-scratch/rftree-$NAME
rm -rf $M; mkdir -p $M
rsync -a --exclude target --exclude .git /repo/ $M/
(cd $M && patch -p1 -s < $PATCH) || { echo "patch does not apply"; exit 1; }
cd /verif
for c in "$@"; do
  VERIF_REPO=$M VERIF_OUT=/var/tmp/verif-scratch/out-rf-$NAME timeout 2400 ./check $c --tier ${TIER:-quick} --workers ${WORKERS:-8} > /var/tmp/verif-scratch/rf-$NAME-$c.log 2>&1; R=$?
  echo "[$NAME] check $c exit=$R"
  grep -E "^VIOLATION|^  clause|^INCONCLUSIVE|^$c " /var/tmp/verif-scratch/rf-$NAME-$c.log | cut -c1-300 | head -6
  if [ $R -ne 0 ]; then grep -E "unsupported|mismatch|internal error" /var/tmp/verif-scratch/rf-$NAME-$c.log | cut -c1-400 | head -5; fi
done
rm -rf $M /var/tmp/verif-scratch/out-rf-$NAME
