"""C03 — optimal-fit returns a minimum-cost arrangement under the documented penalties."""
import itertools
from fragbase import *
from wrapbase import *


def cost_model(frs, lws, pen, cuts, short_of_target=True):
    """documented cost of an arrangement (list of (i, j) fragment ranges) as an integer term.
    `short_of_target`: the short-last-line threshold is a fraction of the target width max(line width, 1) -- the
    reading under which all three width-dependent terms use the same width -- or (False) of the literal line width,
    as the field documentation says; the two readings differ only for line widths < 1.
    per line: nline_penalty; overflow: (line - target) * overflow_penalty; else squared gap on every line but the
    last; a last line holding a single fragment shorter than target / short_last_line_fraction pays
    short_last_line_penalty; a line ending in a fragment with a penalty (hyphen) pays hyphen_penalty."""
    NL, OV, SLF, SLP, HY = pen
    n = len(frs)
    total = 0
    for ln, (i, j) in enumerate(cuts):
        lw = lws[min(ln, len(lws) - 1)] if lws else 0
        target = v_ite(v_lt(lw, 1), 1, lw)
        linew = v_sum([frs[k][0] for k in range(i, j)] + [frs[k][1] for k in range(i, j - 1)] + [frs[j - 1][2]])
        over = v_lt(target, linew)
        gap = v_sub(target, linew)
        if j < n:
            body = gap * gap if (is_sym(gap) or True) else gap * gap
        elif j - i == 1:
            if isinstance(SLF, int) and SLF == 0:
                short = True if short_of_target else v_lt(0, lw)      # x / 0.0: inf, or NaN for 0 / 0.0
            else:
                short = v_lt(linew * SLF, target if short_of_target else lw)
            body = v_ite(short, SLP, 0)
        else:
            body = 0
        c = v_add(NL, v_ite(over, v_sub(linew, target) * OV, body))
        c = v_add(c, v_ite(v_lt(0, frs[j - 1][2]), HY, 0))
        total = v_add(total, c)
    return total


def arrangements(n):
    for k in range(n):
        for comb in itertools.combinations(range(1, n), k):
            pts = [0] + list(comb) + [n]
            yield list(zip(pts, pts[1:]))


def neighbours(got, n):
    """arrangements one edit away from `got`: one break moved by one fragment, one break removed, one break added.
    Used instead of all 2^(n-1) arrangements when n is large: optimality against a subset is a necessary condition,
    so the check stays sound (it can only miss, not invent, a violation)."""
    brk = [a for a, _ in got[1:]]
    seen = set()
    out = []

    def add(bs):
        bs = tuple(sorted(set(bs)))
        if bs in seen or bs == tuple(brk) or any(not 0 < b < n for b in bs):
            return
        seen.add(bs)
        pts = [0] + list(bs) + [n]
        out.append(list(zip(pts, pts[1:])))
    for k, b in enumerate(brk):
        add(brk[:k] + brk[k + 1:])
        add(brk[:k] + [b - 1] + brk[k + 1:])
        add(brk[:k] + [b + 1] + brk[k + 1:])
    for b in range(1, n):
        if b not in brk:
            add(brk + [b])
    return out


class C03(FragHarness, WrapHarness):
    prop = 'C03'
    validate_every = 6

    def spaces(self, tier, seed):
        q = tier == 'quick'
        out = []
        for nlw in (1, 2):
            for n in (1, 2, 3) + (() if q else (4,)):
                if n == 4 and nlw == 2:
                    continue
                # n = 4 with widths <= 2^10 ran into solver time-outs (gap*gap over four symbolic widths): small ranges
                # there -- the path structure through smawk is what n = 4 adds, the magnitudes are covered at n <= 3
                big = n >= 4
                out.append({'algo': 'O', 'num': 'int', 'n': n, 'nlw': nlw, 'B': 12 if big else (64 if q else 1 << 10),
                            'LB': 40 if big else (256 if q else 1 << 12), 'SB': 1 if big else 3, 'PB': 1,
                            'pen_le_next': True, 'lwmin': 0})
        # text level: wrap's general path with OptimalFit; fragments recomputed by the real pipeline stages
        for split in ('N', 'H'):
            for bw in (True, False):
                out.append({'level': 'text', 'feat': 'full', 'algo': 'O', 'sep': 'A', 'split': split, 'bw': bw,
                            'gen': 'sym1', 'n': 3 if q else 4, 'wmax': 1 << 16})
        out.append({'level': 'text', 'feat': 'full', 'algo': 'O', 'sep': 'U', 'split': 'H', 'bw': True, 'gen': 'alpha',
                    'alphabet': [' ', 'a', '-', '你', '\u00ad'], 'n': 3 if q else 4, 'wmax': 1 << 16})
        out += tmpl_spaces({'level': 'text', 'feat': 'full', 'algo': 'O', 'sep': 'A', 'split': 'H', 'bw': True, 'wmax': 1 << 16},
                           ['short', 'longword'] if q else ['short', 'longword', 'sentence', 'hyphens', 'wide'])
        # arbitrary non-negative penalties
        out.append({'algo': 'O', 'num': 'int', 'n': 2, 'nlw': 1, 'B': 32, 'LB': 128, 'SB': 2, 'PB': 1,
                    'pen_le_next': True, 'lwmin': 0, 'sympen': True})
        if not q:
            out.append({'algo': 'O', 'num': 'int', 'n': 3, 'nlw': 1, 'B': 8, 'LB': 24, 'SB': 1, 'PB': 1,
                        'pen_le_next': True, 'lwmin': 0, 'sympen': True, 'penmax': 64})
        return out

    def bounds_text(self, tier):
        q = tier == 'quick'
        return ('wrap_optimal_fit through smawk MIR on 1..%d fragments with symbolic integer widths <= %d (<= 12 at n = 4), whitespace <= 3, '
                'penalty width <= 1 and <= the next fragment width, one or two symbolic line widths >= 0 (at width 0 optimality under either reading of the short-last-line threshold); default '
                'penalties, and arbitrary penalties <= 2^8 at n <= 2 (<= 64 with widths <= 8 at n = %d); oracle: cost <= cost of each of the 2^(n-1) '
                'arrangements under an independent transcription of the documented cost model. The ~60-fragment '
                'regime of the property text is outside the claim. Text level additionally on sentence templates; paragraphs of more than 7 fragments are compared with the arrangements one edit away (break moved / removed / added) only.' % (3 if q else 4, 64 if q else 1024, 2 if q else 3))

    def run(self, I, cfg):
        if cfg.get('level') == 'text':
            return self.run_text(I, cfg)
        inp = self.gen_frags(I, cfg)
        if cfg.get('sympen'):
            pen = [I.sym_int('pen%d' % k, 0, cfg.get('penmax', 1 << 8)) for k in range(5)]
            pen[2] = I.enumerate_int(pen[2], 'short_last_line_fraction', 4)
            inp['pen'] = pen
        I.inputs = inp
        out = self.run_algo(I, cfg, inp)
        self.oracle(I, cfg, inp, out)
        return out

    # ---------------------------------------------------------------- text level
    def stages(self, I, cfg, inp, line):
        """the fragments wrap() hands to the algorithm: find_words -> split_words -> break_words (real MIR)"""
        opts = self.options(I, cfg, inp)
        sep = opts.f[6]
        words = I.run('WordSeparator::find_words', [Ptr([sep], 0), line])
        sw = I.run('split_words', [words, Ptr(opts.f, 7)])
        if cfg.get('bw', True):
            vec = I.run('break_words', [sw, inp['W']])
        else:
            vec = RVec()
            while True:
                r = I.iter_next(sw)
                if r.v == 0:
                    break
                vec.l.append(r.f[0])
        return [[w.f[3], w.f[1].len(), w.f[2].len(), w.f[0].len()] for w in vec.l]

    def run_text(self, I, cfg):
        inp = self.gen(I, cfg)
        for c, _ in inp['text'].chars:
            if is_sym(c):
                I.add(c != 10)
            elif c == 10:
                raise Infeasible()
        I.inputs = inp
        line = to_str(inp['text'])
        frs = self.stages(I, cfg, inp, line)
        lines = RVec()
        I.run('wrap_single_line_slow_path', [line, Ptr([self.options(I, cfg, inp)], 0), Ptr([lines], 0)])
        out = {'frs': frs, 'lines': lines_neutral(lines, line.b)}
        self.oracle(I, cfg, inp, out)
        return out

    def native(self, nat, cfg, inp):
        if cfg.get('level') != 'text':
            return FragHarness.native(self, nat, cfg, inp)
        st, r = nat.call('wsl_slow %s 0 %s' % (N.hexs(inp['text']), self.nopts(cfg, inp)))
        if st != 'OK':
            return st, r
        lines = lines_from_native(r)
        # fragments natively: find_words | split_words | break_words
        st, r = nat.call('find_words %s %s' % (cfg['sep'], N.hexs(inp['text'])))
        ws = N.parse_words(r)
        st, r = nat.call('split_words %s %s' % (cfg['split'], N.words_token(ws)))
        ws = N.parse_words(r)
        if cfg.get('bw', True):
            st, r = nat.call('break_words %s %d' % (N.words_token(ws), inp['W']))
            ws = N.parse_words(r)
        frs = [[w['width'], len(w['ws'].encode()), len(w['pen'].encode()), len(w['word'].encode())] for w in ws]
        return 'OK', {'frs': frs, 'lines': lines}

    def decode(self, cfg, inputs):
        if cfg.get('level') == 'text':
            return WrapHarness.decode(self, cfg, inputs)
        return inputs

    def text_oracle(self, I, cfg, inp, out):
        frs = out['frs']
        lines = out['lines']
        n = len(frs)
        if n == 0:
            return
        # map lines to fragment runs by byte lengths (lines are slices of the text: C01)
        cuts = []
        i = 0
        for ln in lines:
            need = ln['txt'].blen()
            j = i
            tot = 0
            found = None
            while j < n:
                tot += frs[j][3]
                j += 1
                if tot + frs[j - 1][2] == need:     # words + inner whitespace (+ inserted penalty) = line length
                    found = j
                    break
                tot += frs[j - 1][1]
            if found is None:
                i = -1
                break
            cuts.append((i, found))
            i = found
        if not I.check(i == n and all(b > a for a, b in cuts), 'lines-cover-fragments',
                       'could not map lines to fragment runs: %r' % (cuts,)):
            return
        W = inp['W']
        f3 = [f[:3] for f in frs]
        self.min_cost(I, f3, [W, W], DEFAULT_PEN, cuts, 'min-cost-text',
                      'wrap returned, for the paragraph fragments, arrangement')

    def min_cost(self, I, frs, lws, pen, got, clause, what):
        """the returned arrangement costs no more than any other.  Line widths >= 1: one documented model.  A line
        width of 0: the documentation can be read two ways for the short-last-line threshold (fraction of the
        target width max(w, 1) as in the gap/overflow terms, or of the literal width); the result must be optimal
        under at least one of the two readings -- stated as one obligation."""
        n = len(frs)
        alts = [a for a in arrangements(n) if a != got] if n <= 7 else neighbours(got, n)
        if I.branch(v_and(*[v_le(1, lw) for lw in lws])):
            mine = cost_model(frs, lws, pen, got)
            for alt in alts:
                I.check(v_le(mine, cost_model(frs, lws, pen, alt)), clause, '%s %r costs more than %r' % (what, got, alt))
            return
        both = []
        for reading in (True, False):
            mine = cost_model(frs, lws, pen, got, reading)
            both.append(v_and(*[v_le(mine, cost_model(frs, lws, pen, alt, reading)) for alt in alts]))
        I.check(v_or(*both), clause + '-width0',
                '%s %r is not a minimum-cost arrangement under either reading of the short-last-line threshold at '
                'line width 0' % (what, got))

    def oracle(self, I, cfg, inp, cuts):
        if cfg.get('level') == 'text':
            return self.text_oracle(I, cfg, inp, cuts)
        n = len(inp['frags'])
        if not self.partition_oracle(I, n, cuts):
            return
        pen = inp.get('pen', DEFAULT_PEN)
        got = [(a, b) for a, b, _ in cuts]
        self.min_cost(I, inp['frags'], inp['lws'], pen, got, 'min-cost', 'returned arrangement')


HARNESS = C03()
