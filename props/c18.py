"""C18 — dedent removes exactly the longest common whitespace margin."""
import z3
from harness import *
from wrapbase import seq_eq
from c19 import is_ws, gen_ml_text, ALPHA


def rust_lines(I, chars):
    """str::lines(): split at '\\n', strip one trailing '\\r' of each '\\n'-terminated line; -> (lines, ends_with_nl)"""
    lines, cur = [], []
    ends = False
    for c in chars:
        if I.branch(v_eq(c[0], 10)):
            if cur and I.branch(v_eq(cur[-1][0], 13)):
                cur = cur[:-1]
            lines.append(cur)
            cur = []
            ends = True
        else:
            cur.append(c)
            ends = False
    if cur:
        lines.append(cur)
    return lines, ends


def spec_dedent(H, I, chars):
    lines, ends = rust_lines(I, chars)
    blank = []
    lead = []
    for ln in lines:
        k = 0
        while k < len(ln) and I.branch(is_ws(H, I, ln[k][0])):
            k += 1
        blank.append(k == len(ln))
        lead.append(ln[:k])
    m = None
    for ln, b, ld in zip(lines, blank, lead):
        if b:
            continue
        if m is None:
            m = list(ld)
            continue
        k = 0
        while k < len(m) and k < len(ld) and m[k][1] == ld[k][1] and I.branch(v_eq(m[k][0], ld[k][0])):
            k += 1
        m = m[:k]
    m = m or []
    out = []
    for ln, b in zip(lines, blank):
        if not b:
            out += ln[len(m):]
        out.append((10, 1))
    if out and not ends:
        out.pop()
    return out, m


class C18(Harness):
    prop = 'C18'
    features = ('full',)
    validate_every = 5

    def spaces(self, tier, seed):
        q = tier == 'quick'
        out = [{'mode': 'spec', 'gen': 'sym1', 'n': 5 if q else 6},
               {'mode': 'spec', 'gen': 'alpha', 'n': 6 if q else 7},
               {'mode': 'spec', 'gen': 'symall', 'n': 3 if q else 4},
               {'mode': 'spec', 'gen': 'symcls', 'classes': (1, 2), 'n': 5 if q else 6},
               {'mode': 'spec', 'gen': 'symcls', 'classes': (1, 3), 'n': 5},
               {'mode': 'idem', 'gen': 'sym1', 'n': 5},
               {'mode': 'idem', 'gen': 'alpha', 'n': 6},
               {'mode': 'indent', 'gen': 'alpha', 'alphabet': ['x', ' ', '\t', '\n', ' '], 'n': 4 if q else 5,
                'pmax': 2},
               {'mode': 'indent', 'gen': 'sym1', 'n': 3 if q else 4, 'pmax': 1}]
        for t in ('code', 'mixed', 'blank', 'nbsp', 'crlf'):
            out.append({'mode': 'spec', 'gen': 'tmpl', 'tmpl': t})
            out.append({'mode': 'idem', 'gen': 'tmpl', 'tmpl': t})
            out.append({'mode': 'indent', 'gen': 'tmpl', 'tmpl': t, 'pmax': 1 if q else 2, 'pgen': 'sym1'})
        return out

    def bounds_text(self, tier):
        q = tier == 'quick'
        return ('texts of <= %d symbolic 1-byte characters, <= %d over the alphabet %r, <= %d of the 1-3 byte classes; '
                'idempotence on <= %d; dedent(indent(s,p)) = dedent(s) for whitespace prefixes of <= 2 characters and CR-free s'
                % (5 if q else 6, 6 if q else 7, ALPHA, 3 if q else 4, 6))

    def run(self, I, cfg):
        s = gen_ml_text(self, I, cfg)
        mode = cfg['mode']
        inp = {'s': s}
        if mode == 'indent':
            pc = dict(cfg, n=cfg['pmax'], gen=cfg.get('pgen', cfg['gen']))
            p = gen_ml_text(self, I, pc, 'p')
            for c, _ in p.chars:
                w = is_ws(self, I, c)
                if isinstance(w, bool):
                    if not w:
                        raise Infeasible()
                else:
                    I.add(w)
                if is_sym(c):
                    I.add(c != 10)
                    I.add(c != 13)
                elif c in (10, 13):
                    raise Infeasible()
            for c, _ in s.chars:
                if is_sym(c):
                    I.add(c != 13)
                elif c == 13:
                    raise Infeasible()
            inp['p'] = p
        I.inputs = inp
        d = T(I.run('dedent', [to_str(s)]))
        out = {'d': d}
        if mode == 'idem':
            out['dd'] = T(I.run('dedent', [to_str(d, 'dedented')]))
        elif mode == 'indent':
            ind = I.run('indent', [to_str(s), to_str(inp['p'], 'prefix')])
            out['di'] = T(I.run('dedent', [to_str(T(ind), 'indented')]))
        self.oracle(I, cfg, inp, out)
        return out

    def native(self, nat, cfg, inp):
        def call(cmd, *a):
            st, r = nat.call(cmd + ' ' + ' '.join(N.hexs(x) for x in a))
            if st != 'OK':
                raise RuntimeError(r)
            return N.unhex(r)
        try:
            d = call('dedent', inp['s'])
            out = {'d': T(d)}
            if cfg['mode'] == 'idem':
                out['dd'] = T(call('dedent', d))
            elif cfg['mode'] == 'indent':
                out['di'] = T(call('dedent', call('indent', inp['s'], inp['p'])))
            return 'OK', out
        except RuntimeError as e:
            return 'PANIC', str(e)

    def oracle(self, I, cfg, inp, out):
        mode = cfg['mode']
        if mode == 'spec':
            exp, m = spec_dedent(self, I, inp['s'].chars)
            I.check(seq_eq(out['d'].chars, exp), 'dedent-spec',
                    'dedent(s) differs from: remove the longest common whitespace margin of the non-blank lines, '
                    'blank lines become empty, line count and final newline kept')
        elif mode == 'idem':
            I.check(seq_eq(out['dd'].chars, out['d'].chars), 'dedent-idempotent', 'dedent(dedent(s)) != dedent(s)')
        else:
            I.check(seq_eq(out['di'].chars, out['d'].chars), 'dedent-after-indent',
                    'dedent(indent(s, p)) != dedent(s) for a whitespace prefix p')

    def shape(self, cfg, inputs, clause):
        if clause == 'dedent-idempotent' and '\r\r\n' in inputs['s']:
            return 'cr-before-crlf'
        return clause


HARNESS = C18()
