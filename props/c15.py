"""C15 — unfill inverts fill and recovers indents, width and line ending; structural guarantees on any input."""
import z3
from harness import *
from wrapbase import *

PREFIX = [ord(c) for c in ' -+*>#/']


def gen_prefix_indent(I, tag, maxlen):
    n = I.choose(maxlen + 1, 'ilen')
    chars = []
    for i in range(n):
        c = I.sym_char('%s%d' % (tag, i), 0x20, 0x3e)
        I.add(z3.Or(*[c == p for p in PREFIX]))
        chars.append((c, 1))
    return Txt(chars)


# paragraph templates: concrete words, '?' = symbolic lowercase letter (6-8 words, so fills of 3-6 lines)
PARA_TEMPLATES = ['th? quick br?wn fox jumps ov?r', 'a bb ccc ?ddd eeeee f?', 'lor?m ipsum dolor sit am?t consectetur']


def gen_paragraph(I, kmax, wl=2, concrete=False, tmpl=None):
    """k words of 1..wl lowercase letters joined by single spaces (or a paragraph template)"""
    if tmpl is not None:
        return Txt([(I.sym_char('l%d' % k, 0x61, 0x7a), 1) if ch == '?' else (ord(ch), 1) for k, ch in enumerate(tmpl)])
    k = 1 + I.choose(kmax, 'nwords')
    chars = []
    for w in range(k):
        if w:
            chars.append((32, 1))
        n = 1 + I.choose(wl, 'wlen')
        for j in range(n):
            chars.append(((0x61 + (w + j) % 26) if concrete else I.sym_char('l%d_%d' % (w, j), 0x61, 0x7a), 1))
    return Txt(chars)


def unfill_neutral(res):
    s, o = res.f
    return {'text': T(s), 'width': o.f[0], 'le': 'CRLF' if o.f[1].v == 0 else 'LF', 'ii': T(o.f[2]), 'si': T(o.f[3])}


def native_unfill(nat, text):
    st, r = nat.call('unfill ' + N.hexs(text))
    if st != 'OK':
        return st, r
    t = r.split()
    return 'OK', {'text': T(N.unhex(t[0])), 'width': int(t[1]), 'le': t[2], 'ii': T(N.unhex(t[3])), 'si': T(N.unhex(t[4]))}


class C15(WrapHarness):
    prop = 'C15'
    features = ('full',)
    validate_every = 6

    def spaces(self, tier, seed):
        q = tier == 'quick'
        out = []
        for algo in ('F', 'O'):
            for le in ('LF', 'CRLF'):
                for trail in (False, True):
                    out.append({'mode': 'roundtrip', 'feat': 'full', 'algo': algo, 'sep': 'A',
                                'split': 'H', 'bw': False, 'le': le, 'trail': trail, 'k': 3 if q else 4, 'imax': 1 if q else 2,
                                'wmax': 1 << 20})
        out.append({'mode': 'roundtrip', 'feat': 'full', 'algo': 'O', 'sep': 'U', 'split': 'H', 'bw': False, 'le': 'LF',
                    'trail': True, 'k': 3 if q else 4, 'imax': 1, 'wmax': 1 << 20, 'concrete_words': True})
        out.append({'mode': 'roundtrip', 'feat': 'full', 'algo': 'F', 'sep': 'A', 'split': 'N', 'bw': True, 'le': 'LF',
                    'trail': False, 'k': 3, 'imax': 1, 'wmax': 1 << 20, 'wide_enough': True})
        for t in (PARA_TEMPLATES[:1] if q else PARA_TEMPLATES):
            for algo in ('F', 'O'):
                for le in (('LF',) if q else ('LF', 'CRLF')):
                    out.append({'mode': 'roundtrip', 'feat': 'full', 'algo': algo, 'sep': 'A', 'split': 'H', 'bw': False,
                                'le': le, 'trail': le == 'LF', 'k': 0, 'imax': 1 if q else 2, 'wmax': 1 << 16, 'ptmpl': t})
        out.append({'mode': 'structural', 'feat': 'full', 'gen': 'sym1', 'n': 4 if q else 5})
        out.append({'mode': 'structural', 'feat': 'full', 'gen': 'alpha', 'n': 5 if q else 6,
                    'alphabet': ['a', ' ', '\n', '\r', '-', '>', '你']})
        out.append({'mode': 'structural', 'feat': 'full', 'gen': 'symall', 'n': 3 if q else 4})
        out += std_tmpl_spaces({'mode': 'structural', 'feat': 'full'}, q, variants=False)
        return out

    def bounds_text(self, tier):
        q = tier == 'quick'
        return ('round trip: paragraphs of 1..%d words of 1-2 symbolic lowercase letters joined by single spaces, symbolic '
                'indents of <= %d prefix characters, both algorithms, LF/CRLF, with/without trailing line ending, widths '
                '0..2^20 (break_words off; on when the width holds the longest word); structural half: strings of <= %d '
                'symbolic 1-byte characters, <= %d over an alphabet with CR/LF/prefix/CJK characters, <= %d of any class'
                % (3 if q else 4, 1 if q else 2, 4 if q else 5, 5 if q else 6, 3 if q else 4))

    def run(self, I, cfg):
        if cfg['mode'] == 'structural':
            t = self.gen_text(I, cfg)
            I.inputs = {'filled': t}
            out = unfill_neutral(I.run('unfill', [to_str(t)]))
            self.oracle(I, cfg, I.inputs, out)
            return out
        para = gen_paragraph(I, cfg['k'], concrete=cfg.get('concrete_words', False), tmpl=cfg.get('ptmpl'))
        ii = gen_prefix_indent(I, 'i', cfg['imax'])
        si = gen_prefix_indent(I, 's', cfg['imax'])
        W = I.sym_int('W', 0, cfg['wmax'])
        inp = {'text': para, 'ii': ii, 'si': si, 'W': W}
        if cfg.get('wide_enough'):
            I.add(W >= 2 + cfg['imax'])
        I.inputs = inp
        filled = self.run_fill(I, cfg, inp)
        le = [(13, 1), (10, 1)] if cfg['le'] == 'CRLF' else [(10, 1)]
        ftxt = Txt(filled.chars + (le if cfg['trail'] else []))
        un = unfill_neutral(I.run('unfill', [to_str(ftxt, 'filled')]))
        out = {'filled': filled, 'unfill': un}
        self.oracle(I, cfg, inp, out)
        return out

    def native(self, nat, cfg, inp):
        if cfg['mode'] == 'structural':
            return native_unfill(nat, inp['filled'])
        st, f = self.native_fill(nat, cfg, inp)
        if st != 'OK':
            return st, f
        s = f.py() + (('\r\n' if cfg['le'] == 'CRLF' else '\n') if cfg['trail'] else '')
        st, u = native_unfill(nat, s)
        if st != 'OK':
            return st, u
        return 'OK', {'filled': f, 'unfill': u}

    def oracle(self, I, cfg, inp, out):
        S = self.spec
        if cfg['mode'] == 'roundtrip':
            u = out['unfill']
            le = [(13, 1), (10, 1)] if cfg['le'] == 'CRLF' else [(10, 1)]
            exp = inp['text'].chars + (le if cfg['trail'] else [])
            I.check(seq_eq(u['text'].chars, exp), 'roundtrip-text', 'unfill(fill(t)) does not return the paragraph')
            I.check(seq_eq(u['ii'].chars, inp['ii'].chars), 'roundtrip-initial-indent', 'initial indent not recovered')
            # lines of the filled text
            f = out['filled'].chars
            lines, cur = [], []
            i = 0
            while i < len(f):
                if all(i + t < len(f) and I.branch(v_eq(f[i + t][0], le[t][0])) for t in range(len(le))):
                    lines.append(cur)
                    cur = []
                    i += len(le)
                else:
                    cur.append(f[i])
                    i += 1
            lines.append(cur)
            if len(lines) >= 2:
                I.check(seq_eq(u['si'].chars, inp['si'].chars), 'roundtrip-subsequent-indent',
                        'subsequent indent not recovered')
                I.check(u['le'] == cfg['le'], 'roundtrip-line-ending', 'line ending not recovered')
            elif cfg['trail']:
                I.check(u['le'] == cfg['le'], 'roundtrip-line-ending', 'line ending not recovered')
            ws = [S.display_width(I, l, sym_not_esc=True) for l in lines]
            for w in ws:
                I.check(v_le(w, u['width']), 'roundtrip-width', 'reported width is smaller than a line')
            I.check(v_or(*[v_eq(w, u['width']) for w in ws]), 'roundtrip-width', 'reported width is not the widest line')
            return
        # structural guarantees on arbitrary input
        t = inp['filled'].chars
        u = out
        for nm in ('ii', 'si'):
            I.check(v_and(*[v_or(*[v_eq(c, p) for p in PREFIX]) for c, _ in u[nm].chars]), 'indent-only-prefix-chars',
                    '%s contains a non-prefix character' % nm)
        # lines as str::lines() sees them
        from c18 import rust_lines
        lines, ends = rust_lines(I, t)
        if lines:
            I.check(seq_eq(lines[0][:len(u['ii'].chars)], u['ii'].chars) if len(lines[0]) >= len(u['ii'].chars) else False,
                    'initial-indent-is-prefix-of-first-line', 'initial_indent is not a prefix of the first line')
            for k, ln in enumerate(lines[1:]):
                I.check(seq_eq(ln[:len(u['si'].chars)], u['si'].chars) if len(ln) >= len(u['si'].chars) else False,
                        'subsequent-indent-is-prefix-of-later-lines',
                        'subsequent_indent is not a prefix of line %d' % (k + 1))
        else:
            I.check(len(u['ii'].chars) == 0 and len(u['si'].chars) == 0, 'indents-empty-for-empty-input', 'indents not empty')
        txt = u['text'].chars
        for k, c in enumerate(txt[:-1]):
            I.check(v_ne(c[0], 10), 'no-interior-line-break', 'returned text has a line break at %d' % k)
        # line-ending detection for input without empty lines
        pieces, cur, ends_kind = [], [], []
        for c in t:
            if I.branch(v_eq(c[0], 10)):
                crlf = bool(cur) and I.branch(v_eq(cur[-1][0], 13))
                if crlf:
                    cur = cur[:-1]
                pieces.append(cur)
                ends_kind.append('CRLF' if crlf else 'LF')
                cur = []
            else:
                cur.append(c)
        has_empty = any(len(p) == 0 for p in pieces)
        if not has_empty:
            want = 'CRLF' if ends_kind and all(k == 'CRLF' for k in ends_kind) else 'LF'
            I.check(u['le'] == want, 'line-ending-detection', 'reported %s, expected %s for endings %r' % (u['le'], want, ends_kind))

    def decode(self, cfg, inputs):
        return {k: (T(v) if isinstance(v, str) else v) for k, v in inputs.items()}


HARNESS = C15()
