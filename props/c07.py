"""C07 — first-fit is greedy-maximal."""
from fragbase import *
from wrapbase import *
from kernelfit import FitKernels


class C07(FitKernels, FragHarness, WrapHarness):
    prop = 'C07'
    features = ('full', 'nd')
    validate_every = 5

    def spaces(self, tier, seed):
        q = tier == 'quick'
        out = []
        for nlw in (0, 1, 2, 3) + (() if q else (4,)):
            for n in range(1, (5 if q else 7) + 1):
                out.append({'level': 'frag', 'algo': 'F', 'num': 'int', 'n': n, 'nlw': nlw, 'B': 1 << 40, 'LB': 1 << 52,
                            'SB': 1 << 20, 'PB': 1 << 20})
            for n in range(1, (2 if q else 3) + 1):
                out.append({'level': 'frag', 'algo': 'F', 'num': 'fp', 'n': n, 'nlw': nlw, 'float_mode': 'fp'})
        # kernel mode (engine C): one iteration of the first-fit loop from an arbitrary state satisfying the
        # invariant -- fragment lists and line-width lists of ANY length
        out.append({'level': 'kernel', 'algo': 'F', 'num': 'int', 'feat': 'full'})
        out.append({'level': 'kernel', 'algo': 'F', 'num': 'fp', 'feat': 'full', 'float_mode': 'fp'})
        # text level: next line's first fragment would not have fitted on the line before it
        for feat in ('full', 'nd'):
            for split in ('N', 'H'):
                for bw in (True, False):
                    for ind in ('none', 'both'):
                        if q and feat == 'nd' and ind == 'both':
                            continue
                        out.append({'level': 'text', 'feat': feat, 'algo': 'F', 'sep': 'A', 'split': split, 'bw': bw,
                                    'ind': ind, 'imax': 1, 'gen': 'sym1x', 'n': 3 if q else 4, 'tokens': ()})
        out.append({'level': 'text', 'feat': 'full', 'algo': 'F', 'sep': 'A', 'split': 'N', 'bw': False, 'ind': 'none',
                    'gen': 'sym1x', 'n': 5 if q else 6, 'tokens': ()})
        for split in ('N', 'H'):
            out.append({'level': 'text', 'feat': 'full', 'algo': 'F', 'sep': 'A', 'split': split, 'bw': True, 'ind': 'none',
                        'gen': 'words', 'nwords': 3 if q else 4, 'wl': 2 if q else 1, 'maxgap': 2 if split == 'N' else 1})
        out += std_tmpl_spaces({'level': 'text', 'feat': 'full', 'algo': 'F', 'sep': 'A', 'split': 'H', 'bw': True, 'ind': 'none'},
                               q, cind=True, names=['short', 'longword', 'crlf'] if q else ['sentence', 'paras', 'wide', 'longword', 'hyphens', 'crlf'])
        out.append({'level': 'text', 'feat': 'full', 'algo': 'F', 'sep': 'A', 'split': 'N', 'bw': True, 'ind': 'si', 'imax': 1,
                    'gen': 'words', 'nwords': 3, 'wl': 2, 'maxgap': 1})
        return out

    def bounds_text(self, tier):
        q = tier == 'quick'
        return ('fragment level: 1..%d fragments with symbolic integer widths (<= 2^40, exact f64 encoding) and 1..%d '
                'fragments with arbitrary finite f64 (floating-point theory), line-width lists of length 0..%d; text '
                'level: wrap() with FirstFit/AsciiSpace on <= %d symbolic 1-byte characters (ESC-free), all widths, '
                'symbolic indents <= 1 character' % (5 if q else 7, 2 if q else 3, 2 if q else 3, 5 if q else 6))

    def run(self, I, cfg):
        if cfg['level'] == 'kernel':
            return self.run_kernel_first_fit(I, cfg)
        if cfg['level'] == 'frag':
            inp = self.gen_frags(I, cfg)
            I.inputs = inp
            out = self.run_algo(I, cfg, inp)
        else:
            inp = self.gen(I, cfg)
            I.inputs = inp
            out = self.run_wrap(I, cfg, inp)
        self.oracle(I, cfg, inp, out)
        return out

    def native(self, nat, cfg, inp):
        if cfg['level'] == 'frag':
            return FragHarness.native(self, nat, cfg, inp)
        return self.native_wrap(nat, cfg, inp)

    def decode(self, cfg, inputs):
        if cfg['level'] == 'frag':
            return inputs
        return WrapHarness.decode(self, cfg, inputs)

    def oracle(self, I, cfg, inp, out):
        if cfg['level'] == 'frag':
            return self.frag_oracle(I, cfg, inp, out)
        return self.text_oracle(I, cfg, inp, out)

    def frag_oracle(self, I, cfg, inp, cuts):
        n = len(inp['frags'])
        if not self.partition_oracle(I, n, cuts):
            return
        fp = cfg.get('num') == 'fp'
        if fp:
            def fv(v):
                return v if is_sym(v) else z3.FPVal(float(v), z3.Float64())
            add = lambda a, b: z3.fpAdd(z3.RNE(), fv(a), fv(b))
            gt = lambda a, b: z3.fpGT(fv(a), fv(b))
            zero = z3.FPVal(0.0, z3.Float64())
        else:
            add = v_add
            gt = lambda a, b: v_lt(b, a)
            zero = 0
        lws = inp['lws']
        starts = {a for a, b, _ in cuts}
        line_no = 0
        acc = zero
        for k in range(n):
            w, s, p = inp['frags'][k]
            lw = lws[line_no] if line_no < len(lws) else (lws[-1] if lws else zero)
            if k > 0:
                # the current line is non-empty here (k > start of the current line by construction)
                over = gt(add(add(acc, w), p), lw)
                if k in starts:
                    I.check(over, 'break-only-when-overflowing',
                            'a line break was placed before fragment %d although it would have fitted' % k)
                    line_no += 1
                    acc = zero
                else:
                    I.check(v_not(over) if not isinstance(over, bool) else (not over), 'no-break-when-overflowing',
                            'fragment %d was kept on the line although adding it exceeds the line width' % k)
            # same association as the documented loop (f64 addition is not associative; rounding-level
            # differences are not what the property is about)
            acc = add(acc, add(w, s)) if fp else v_add(acc, v_add(w, s))


    def next_fragment_width(self, I, cfg, rest, wsub):
        """display width of the fragment that starts at `rest` (the text from the first character of the following
        line): the next space-delimited word, or -- with break_words, if that word is wider than the subsequent
        line width -- its first forced piece (greedy, at least one character).  None when the hyphen splitter could
        split the word (then the fragment boundary is not determined by spaces alone)."""
        S = self.spec
        word = []
        for c in rest:
            if I.branch(v_or(v_eq(c[0], 32), v_eq(c[0], 10))):
                break
            word.append(c)
        if cfg.get('split', 'H') == 'H':
            for c in word:
                if I.branch(v_eq(c[0], ord('-'))):
                    return None
        elif cfg.get('split') != 'N':
            return None
        ww = S.display_width(I, word, sym_not_esc=True)
        if not cfg.get('bw', True) or I.branch(v_le(ww, wsub)):
            return ww
        acc = 0
        for c in word:
            cw = S.char_width(I, c[0])
            if I.branch(v_and(v_lt(0, acc), v_lt(wsub, v_add(acc, cw)))):
                break
            acc = v_add(acc, cw)
        return acc

    def text_oracle(self, I, cfg, inp, lines):
        """every line holds as many fragments as fit: the first word (piece) of the following line would not have
        fitted.  Checked for the ASCII separator, where the next fragment is recoverable from the text: for two
        consecutive lines k, k+1 of the same paragraph separated by spaces only, width(line k incl. indent) +
        (spaces between) + width(first piece of line k+1) > W, where the first piece is at least the first character."""
        S = self.spec
        text = inp['text'].chars
        W = inp['W']
        # locate borrowed lines (no indent) or owned ones by their known order: use offsets from kind B lines only
        if len(inp['ii'].chars) or len(inp['si'].chars):
            return self.text_oracle_indented(I, cfg, inp, lines)
        boff = [0]
        for _, nb in text:
            boff.append(boff[-1] + nb)
        bidx = {o: i for i, o in enumerate(boff)}
        for k in range(len(lines) - 1):
            a, b = lines[k], lines[k + 1]
            if a['kind'] != 'B' or b['kind'] != 'B':
                continue
            ea = bidx[a['off']] + len(a['txt'].chars)
            sb = bidx[b['off']]
            gap = text[ea:sb]
            if not gap:
                continue      # forced break inside a word / hyphen split: maximality is C12's subject
            same_par = v_and(*[v_eq(c, 32) for c, _ in gap])
            if not I.branch(same_par):
                continue
            wa = S.display_width(I, a['txt'].chars, sym_not_esc=True)
            fw = self.next_fragment_width(I, cfg, text[sb:], W)
            if fw is None:
                continue
            I.check(v_lt(W, v_add(v_add(wa, len(gap)), fw)), 'line-not-maximal',
                    'line %d could have held the first fragment of the next line' % k)

    def text_oracle_indented(self, I, cfg, inp, lines):
        """same maximality check when indents are present: slices are located by sequential matching (ASCII
        separator, LF): each remainder is searched from the end of the previous one over spaces / line feeds only"""
        S = self.spec
        text = inp['text'].chars
        W = inp['W']
        n = len(text)
        pos = 0
        located = []
        for k, ln in enumerate(lines):
            ind = (inp['ii'] if k == 0 else inp['si']).chars
            cs = ln['txt'].chars
            if len(cs) < len(ind):
                return
            rem = cs[len(ind):]
            if not rem:
                located.append(None)
                continue
            a = pos
            found = None
            while a + len(rem) <= n:
                m = seq_eq(rem, text[a:a + len(rem)])
                if m is not False and I.branch(m):
                    found = a
                    break
                if not I.branch(v_or(v_eq(text[a][0], 32), v_eq(text[a][0], 10))):
                    return
                a += 1
            if found is None:
                return
            located.append((found, found + len(rem)))
            pos = found + len(rem)
        for k in range(len(lines) - 1):
            if located[k] is None or located[k + 1] is None:
                continue
            ea = located[k][1]
            sb = located[k + 1][0]
            gap = text[ea:sb]
            if not gap or not I.branch(v_and(*[v_eq(c, 32) for c, _ in gap])):
                continue
            wa = S.display_width(I, lines[k]['txt'].chars, sym_not_esc=True)
            dsi = S.display_width(I, inp['si'].chars, sym_not_esc=True)
            wsub = v_ite(v_lt(W, dsi), 0, v_sub(W, dsi))
            fw = self.next_fragment_width(I, cfg, text[sb:], wsub)
            if fw is None:
                continue
            I.check(v_lt(W, v_add(v_add(wa, len(gap)), fw)), 'line-not-maximal',
                    'indented line %d could have held the first fragment of the next line' % k)

HARNESS = C07()
