"""C19 — indent prefixes every line and preserves line structure."""
import z3
from harness import *
from wrapbase import seq_eq

ALPHA = ['x', ' ', '\t', '\n', '\r', ' ', '　']


def is_ws(H, I, cp):
    t = H.tables
    if is_sym(cp):
        lo, hi = I.cp_range.get(cp.get_id(), (0, 0x10FFFF))
        return t.pred('whitespace', 1, cp, lo, hi)
    return t.lookup('whitespace', cp) == 1


def split_nl(I, chars):
    """split at '\\n' (branching on symbolic characters) -> list of lines, ends_with_newline"""
    lines, cur = [], []
    for c in chars:
        if I.branch(v_eq(c[0], 10)):
            lines.append(cur)
            cur = []
        else:
            cur.append(c)
    ends = len(chars) > 0 and not cur and len(lines) > 0 and I.branch(v_eq(chars[-1][0], 10))
    if cur:
        lines.append(cur)
        ends = False
    elif chars and not ends:
        pass
    return lines, ends


# indented multi-line templates ('?' symbolic 1-byte incl. ESC, tab, LF, CR; harness.gen_tmpl)
IND_TEMPLATES = {
    'code': '    fn x() {\n  ?   y;\n\n  ? }?\n',
    'mixed': '\t a\n\t ?b\n \t?c\n',
    'blank': '  a\n ? \n  ?b',
    'nbsp': '\u00a0 a?\n\u00a0 ?b\n\u00a0\u2003?',
    'crlf': '  a?\r\n  ?b\r\n ?\r\n',
}


def gen_ml_text(H, I, cfg, tag='c'):
    if cfg['gen'] == 'tmpl':
        return gen_tmpl(I, IND_TEMPLATES[cfg['tmpl']], tag, exclude=())
    if cfg['gen'] == 'alpha':
        return gen_alpha(I, cfg['n'], cfg.get('alphabet', ALPHA), lenvar=True)
    if cfg['gen'] == 'symcls':
        return gen_text(I, cfg['n'], tag, tuple(cfg['classes']), lenvar=True)
    return gen_text(I, cfg['n'], tag, (1,) if cfg['gen'] == 'sym1' else (1, 2, 3), lenvar=True)


class C19(Harness):
    prop = 'C19'
    features = ('full',)
    validate_every = 5

    def spaces(self, tier, seed):
        q = tier == 'quick'
        return [{'gen': 'sym1', 'n': 4, 'pmax': 2, 'pgen': 'sym1'},
                {'gen': 'sym1', 'n': 2 if q else 3, 'pmax': 3, 'pgen': 'sym1'},
                {'gen': 'sym1', 'n': 4 if q else 5, 'pmax': 1, 'pgen': 'sym1'},
                {'gen': 'alpha', 'n': 5 if q else 6, 'pmax': 2, 'pgen': 'alpha'},
                {'gen': 'symall', 'n': 2 if q else 3, 'pmax': 1, 'pgen': 'symall'},
                {'gen': 'sym1', 'n': 6 if q else 7, 'pmax': 0, 'pgen': 'sym1'}] + \
            [{'gen': 'tmpl', 'tmpl': t, 'pmax': 1 if q else 2, 'pgen': 'sym1'}
             for t in ('code', 'mixed', 'blank', 'nbsp', 'crlf')]

    def bounds_text(self, tier):
        q = tier == 'quick'
        return ('texts of <= %d fully symbolic 1-byte characters (LF, CR, tab, space included), <= %d over the alphabet %r, '
                '<= %d of the 1-3 byte classes; prefixes of <= 3 symbolic characters incl. whitespace and empty '
                '(3-character prefixes with texts of <= %d characters, 2-character ones with <= 4)'
                % (6 if q else 7, 5 if q else 6, ALPHA, 2 if q else 3, 2 if q else 3))

    def run(self, I, cfg):
        s = gen_ml_text(self, I, cfg)
        pc = dict(cfg, n=cfg['pmax'], gen=cfg['pgen'])
        p = gen_ml_text(self, I, pc, 'p') if cfg['pmax'] else Txt([])
        I.inputs = {'s': s, 'p': p}
        out = T(I.run('indent', [to_str(s), to_str(p, 'prefix')]))
        self.oracle(I, cfg, I.inputs, out)
        return out

    def native(self, nat, cfg, inp):
        st, r = nat.call('indent %s %s' % (N.hexs(inp['s']), N.hexs(inp['p'])))
        if st != 'OK':
            return st, r
        return 'OK', T(N.unhex(r))

    def oracle(self, I, cfg, inp, out):
        s = inp['s'].chars
        p = inp['p'].chars
        lines, ends = split_nl(I, s)
        tp = list(p)
        while tp and I.branch(is_ws(self, I, tp[-1][0])):
            tp.pop()
        exp = []
        for k, ln in enumerate(lines):
            if k > 0:
                exp.append((10, 1))
            blank = True
            for c in ln:
                if not I.branch(is_ws(self, I, c[0])):
                    blank = False
                    break
            exp += (tp if blank else p) + ln
        if ends:
            exp.append((10, 1))
        I.check(seq_eq(out.chars, exp), 'indent-spec',
                'indent(s, p) differs from: every non-blank line = p + line, blank line = trimmed p + line, newlines kept')
        if len(p) == 0:
            I.check(seq_eq(out.chars, s), 'indent-empty-prefix-identity', 'indent(s, "") != s')


HARNESS = C19()
