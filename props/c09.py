"""C09 — existing line breaks are kept and paragraphs wrap independently."""
import z3
from harness import *
from wrapbase import *


class C09(WrapHarness):
    prop = 'C09'
    validate_every = 7

    def spaces(self, tier, seed):
        q = tier == 'quick'
        out = []
        for feat in ('full', 'nd'):
            for algo in (('F', 'O') if feat == 'full' else ('F',)):
                for le in ('LF', 'CRLF'):
                    for ind in ('none', 'both'):
                        for bw in (True, False):
                            if q and ((feat == 'nd' and (ind == 'both' or not bw or le == 'CRLF')) or (algo == 'O' and not bw)
                                      or (algo == 'O' and (le == 'CRLF' or ind == 'both'))):
                                continue
                            base = {'feat': feat, 'algo': algo, 'sep': 'A', 'split': 'H', 'bw': bw, 'le': le, 'ind': ind,
                                    'imax': 1, 'wmax': 1 << 20}
                            out.append(dict(base, mode='prefix', na=1 if q else 2, nb=2, na2=0))
                            out.append(dict(base, mode='indep', na=1 if q else 2, nb=1 if q else 2, na2=1))
        out.append({'feat': 'full', 'algo': 'F', 'sep': 'A', 'split': 'H', 'bw': True, 'le': 'LF', 'ind': 'none',
                    'imax': 1, 'wmax': 1 << 20, 'mode': 'prefix', 'na': 2, 'nb': 2 if q else 3, 'na2': 0})
        out.append({'feat': 'full', 'algo': 'O', 'sep': 'U', 'split': 'H', 'bw': True, 'le': 'LF', 'ind': 'si', 'imax': 1,
                    'mode': 'prefix', 'na': 1 if q else 2, 'nb': 2, 'na2': 0, 'alpha': [' ', 'a', '-', '你'], 'wmax': 1 << 20})
        out.append({'feat': 'full', 'algo': 'F' if q else 'O', 'sep': 'U', 'split': 'H', 'bw': True, 'le': 'LF', 'ind': 'si',
                    'imax': 1, 'mode': 'indep', 'na': 1 if q else 2, 'nb': 2, 'na2': 1, 'alpha': [' ', 'a', '-', '你'],
                    'wmax': 1 << 20})
        # stray carriage returns: parts may contain CR (a CR that is not part of the configured ending is ordinary text)
        for le in ('CRLF', 'LF'):
            out.append({'feat': 'full', 'algo': 'F', 'sep': 'A', 'split': 'H', 'bw': True, 'le': le, 'ind': 'none', 'imax': 1,
                        'wmax': 1 << 20, 'mode': 'prefix', 'na': 2, 'nb': 2 if q else 3, 'na2': 0, 'cr': True})
        # sentence templates for the two parts (paragraph-sized a and b with symbolic positions)
        tb = {'feat': 'full', 'algo': 'F', 'sep': 'A', 'split': 'H', 'bw': True, 'le': 'LF', 'ind': 'si', 'imax': 1,
              'wmax': 1 << 20, 'na': 0, 'nb': 0, 'na2': 1}
        pairs = [('ab c?', 'de-? f'), ('a?\n\nb', '?c d')] if q else \
            [('ab c?', 'de-? f'), ('a?\n\nb', '?c d'), ('The qu?ck brown', 'f?x jumps-?ver'), ('aaaa?aaa ', ' ?bbbbbbb c')]
        for ta, tb_ in pairs:
            out.append(dict(tb, mode='prefix', ta=ta, tb=tb_))
            out.append(dict(tb, mode='indep', ta=ta, tb=tb_))
            if not q:
                out.append(dict(tb, mode='prefix', ta=ta, tb=tb_, le='CRLF', ind='both'))
                out.append(dict(tb, mode='prefix', ta=ta, tb=tb_, algo='O', ind='none'))
        if not q:
            for ind in ('both',):
                out.append({'feat': 'full', 'algo': 'O', 'sep': 'A', 'split': 'H', 'bw': True, 'le': 'CRLF', 'ind': ind,
                            'imax': 1, 'wmax': 1 << 20, 'mode': 'prefix', 'na': 2, 'nb': 2, 'na2': 0})
        return out

    def bounds_text(self, tier):
        return ('a, a\' of <= 2 / 1 symbolic 1-byte characters (a may itself contain line endings), b of <= 2-3, all widths '
                '(<= 2^20 with optimal-fit), LF and CRLF, empty and symbolic indents (<= 1 character), both algorithms; '
                'Unicode separator over a small alphabet; carriage returns inside a and b only in the two cr=True spaces (first-fit, '
                'ASCII separator, no indents), excluded elsewhere')

    def gen_part(self, I, cfg, n, tag):
        if 't' + tag in cfg:
            return gen_tmpl(I, cfg['t' + tag], tag, exclude=(13, ESC))
        if 'alpha' in cfg:
            return gen_alpha(I, n, cfg['alpha'], lenvar=True)
        # cr=True: carriage returns allowed inside the parts (stray CR next to a CRLF ending, CR at the end of the text)
        return gen_text(I, n, tag, (1,), exclude=() if cfg.get('cr') else (13,), lenvar=True)

    def run(self, I, cfg):
        a = self.gen_part(I, cfg, cfg['na'], 'a')
        b = self.gen_part(I, cfg, cfg['nb'], 'b')
        a2 = self.gen_part(I, cfg, cfg['na2'], 'x')
        # b is one or more paragraphs of its own; a must not end in a way that merges with the separator
        base = WrapHarness.gen(self, I, dict(cfg, gen='sym1', n=0, lenvar=False))
        inp = {'a': a, 'b': b, 'a2': a2, 'W': base['W'], 'ii': base['ii'], 'si': base['si']}
        I.inputs = inp
        le = [(13, 1), (10, 1)] if cfg['le'] == 'CRLF' else [(10, 1)]
        full = Txt(a.chars + le + b.chars)
        full2 = Txt(a2.chars + le + b.chars)
        out = {'ab': self.run_wrap(I, cfg, inp, text=full), 'a': self.run_wrap(I, cfg, inp, text=a)}
        if cfg['mode'] == 'indep':
            out['a2b'] = self.run_wrap(I, cfg, inp, text=full2)
            out['a2'] = self.run_wrap(I, cfg, inp, text=a2)
        else:
            out['fill'] = self.run_fill(I, cfg, inp, text=full)
            if len(inp['ii']) == 0 and len(inp['si']) == 0:
                out['b'] = self.run_wrap(I, cfg, inp, text=b)
        if cfg['le'] == 'LF' and cfg['mode'] == 'prefix':
            # LF -> CRLF equivariance: replace every LF of the text (and the option) by CRLF
            crlf = []
            for c in full.chars:
                if I.branch(v_eq(c[0], 10)):
                    crlf += [(13, 1), (10, 1)]
                else:
                    crlf.append(c)
            out['crlf'] = self.run_wrap(I, dict(cfg, le='CRLF'), inp, text=Txt(crlf))
        self.oracle(I, cfg, inp, out)
        return out

    def native(self, nat, cfg, inp):
        le = '\r\n' if cfg['le'] == 'CRLF' else '\n'
        full = inp['a'] + le + inp['b']
        full2 = inp['a2'] + le + inp['b']
        out = {}
        runs = [('ab', full), ('a', inp['a'])] + ([('a2b', full2), ('a2', inp['a2'])] if cfg['mode'] == 'indep' else [])
        for k, t in runs:
            st, r = self.native_wrap(nat, cfg, inp, text=t)
            if st != 'OK':
                return st, r
            out[k] = r
        if cfg['mode'] == 'indep':
            return 'OK', out
        st, r = self.native_fill(nat, cfg, inp, text=full)
        if st != 'OK':
            return st, r
        out['fill'] = r
        if inp['ii'] == '' and inp['si'] == '':
            st, r = self.native_wrap(nat, cfg, inp, text=inp['b'])
            if st != 'OK':
                return st, r
            out['b'] = r
        if cfg['le'] == 'LF':
            st, r = self.native_wrap(nat, dict(cfg, le='CRLF'), inp, text=full.replace('\n', '\r\n'))
            if st != 'OK':
                return st, r
            out['crlf'] = r
        return 'OK', out

    def decode(self, cfg, inputs):
        return {k: (T(v) if isinstance(v, str) else v) for k, v in inputs.items()}

    def oracle(self, I, cfg, inp, out):
        def txts(ls):
            return [l['txt'].chars for l in ls]
        ab, a = txts(out['ab']), txts(out['a'])
        if not I.check(len(ab) >= len(a), 'prefix-is-wrap-a', 'wrap(a+ending+b) has fewer lines than wrap(a)'):
            return
        for k in range(len(a)):
            I.check(seq_eq(ab[k], a[k]), 'prefix-is-wrap-a', 'line %d of wrap(a+ending+b) differs from wrap(a)' % k)
        rest = ab[len(a):]
        I.check(len(rest) >= 1, 'paragraph-not-joined', 'no line for the paragraph(s) after the line ending')
        if cfg['mode'] == 'indep':
            a2b, a2 = txts(out['a2b']), txts(out['a2'])
            rest2 = a2b[len(a2):] if len(a2b) >= len(a2) else None
            if I.check(rest2 is not None and len(rest2) == len(rest), 'rest-independent-of-a',
                       'the lines after wrap(a) depend on a (different count)'):
                for k in range(len(rest)):
                    I.check(seq_eq(rest[k], rest2[k]), 'rest-independent-of-a', 'line %d after wrap(a) depends on a' % k)
            return
        if False and I.check(rest2 is not None and len(rest2) == len(rest), 'rest-independent-of-a',
                   'the lines after wrap(a) depend on a (different count)'):
            for k in range(len(rest)):
                I.check(seq_eq(rest[k], rest2[k]), 'rest-independent-of-a', 'line %d after wrap(a) depends on a' % k)
        if 'b' in out:
            b = txts(out['b'])
            if I.check(len(b) == len(rest), 'rest-is-wrap-b', 'with empty indents the rest is not wrap(b)'):
                for k in range(len(b)):
                    I.check(seq_eq(rest[k], b[k]), 'rest-is-wrap-b', 'line %d of the rest differs from wrap(b)' % k)
        # never fewer lines than paragraphs
        le = [13, 10] if cfg['le'] == 'CRLF' else [10]
        full = inp['a'].chars + [(x, 1) for x in le] + inp['b'].chars
        nle = 0
        i = 0
        while i < len(full):
            if i + len(le) <= len(full) and all(I.branch(v_eq(full[i + t][0], le[t])) for t in range(len(le))):
                nle += 1
                i += len(le)
            else:
                i += 1
        I.check(len(ab) >= nle + 1, 'lines-ge-paragraphs', '%d lines for %d paragraphs' % (len(ab), nle + 1))
        # fill = lines joined by the line ending
        joined = []
        for k, l in enumerate(ab):
            if k:
                joined += [(x, 1) for x in le]
            joined += l
        I.check(seq_eq(out['fill'].chars, joined), 'fill-is-join', 'fill differs from wrap lines joined by the line ending')
        if 'crlf' in out:
            c = txts(out['crlf'])
            if I.check(len(c) == len(ab), 'lf-crlf-equivariance', 'CRLF version has a different number of lines'):
                for k in range(len(c)):
                    I.check(seq_eq(c[k], ab[k]), 'lf-crlf-equivariance', 'line %d differs between LF and CRLF versions' % k)


HARNESS = C09()
