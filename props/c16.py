"""C16 — refill equals filling the original paragraph at the new width."""
import z3
from harness import *
from wrapbase import *
from c15 import gen_paragraph, gen_prefix_indent, PARA_TEMPLATES


class C16(WrapHarness):
    prop = 'C16'
    features = ('full',)
    validate_every = 6

    def spaces(self, tier, seed):
        q = tier == 'quick'
        out = []
        for algo in ('F', 'O'):
            for le1 in ('LF', 'CRLF'):
                for le2 in ('LF', 'CRLF'):
                    for trail in (False, True):
                        if q and algo == 'O' and le1 != le2 and not trail:
                            continue
                        out.append({'feat': 'full', 'algo': algo, 'sep': 'A', 'split': 'H', 'bw': False, 'le1': le1,
                                    'le2': le2, 'trail': trail, 'k': 3 if q else 4, 'imax': 1 if q else 2, 'wmax': 1 << 16})
        # o1 and o2 with different algorithms (the statement quantifies over o1 and o2 independently)
        for a1, a2 in (('O', 'F'), ('F', 'O')):
            out.append({'feat': 'full', 'algo': a1, 'algo2': a2, 'sep': 'A', 'split': 'H', 'bw': False, 'le1': 'LF',
                        'le2': 'LF', 'trail': False, 'k': 3 if q else 4, 'imax': 1, 'wmax': 1 << 16})
            out.append({'feat': 'full', 'algo': a1, 'algo2': a2, 'sep': 'A', 'split': 'H', 'bw': False, 'le1': 'LF',
                        'le2': 'LF', 'trail': True, 'k': 0, 'imax': 1, 'wmax': 1 << 16, 'ptmpl': PARA_TEMPLATES[1]})
        for t in (PARA_TEMPLATES[:1] if q else PARA_TEMPLATES):
            for algo in ('F', 'O'):
                for le1, le2 in ((('LF', 'LF'),) if q else (('LF', 'LF'), ('CRLF', 'LF'), ('LF', 'CRLF'))):
                    out.append({'feat': 'full', 'algo': algo, 'sep': 'A', 'split': 'H', 'bw': False, 'le1': le1, 'le2': le2,
                                'trail': le1 == 'LF', 'k': 0, 'imax': 1, 'wmax': 1 << 16, 'ptmpl': t})
        return out

    def bounds_text(self, tier):
        q = tier == 'quick'
        return ('paragraphs of 2..%d words of 1-2 symbolic lowercase letters, symbolic indents of <= %d prefix characters, '
                'two independent symbolic widths 0..2^16, both algorithms, all four line-ending conversions, with and '
                'without trailing line ending; only fills of >= 2 lines (as the property states); o1 and o2 also with '
                'different algorithms (optimal-fit -> first-fit and back); plus paragraph templates of 6-8 words' % (3 if q else 4, 1 if q else 2))

    def run(self, I, cfg):
        para = gen_paragraph(I, cfg['k'], tmpl=cfg.get('ptmpl'))
        ii = gen_prefix_indent(I, 'i', cfg['imax'])
        si = gen_prefix_indent(I, 's', cfg['imax'])
        W1 = I.sym_int('W1', 0, cfg['wmax'])
        W2 = I.sym_int('W2', 0, cfg['wmax'])
        inp = {'text': para, 'ii': ii, 'si': si, 'W': W1, 'W2': W2}
        I.inputs = inp
        c1 = dict(cfg, le=cfg['le1'])
        c2 = dict(cfg, le=cfg['le2'], algo=cfg.get('algo2', cfg['algo']))
        filled = self.run_fill(I, c1, inp)
        le1 = [(13, 1), (10, 1)] if cfg['le1'] == 'CRLF' else [(10, 1)]
        le2 = [(13, 1), (10, 1)] if cfg['le2'] == 'CRLF' else [(10, 1)]
        # at least two lines: the filled text contains the line ending
        f = filled.chars
        nl = sum(1 for c, _ in f if not is_sym(c) and c == 10)
        if nl == 0:
            raise Infeasible()
        ftxt = Txt(f + (le1 if cfg['trail'] else []))
        o2 = mk_options(I, W2, cfg['le2'], '', '', cfg['bw'], c2['algo'], cfg['sep'], cfg['split'])
        re = T(I.run('refill', [to_str(ftxt, 'filled'), o2]))
        direct = self.run_fill(I, c2, inp, W=W2)
        out = {'filled': filled, 'refilled': re, 'direct': Txt(direct.chars + (le2 if cfg['trail'] else []))}
        self.oracle(I, cfg, inp, out)
        return out

    def native(self, nat, cfg, inp):
        c1 = dict(cfg, le=cfg['le1'])
        c2 = dict(cfg, le=cfg['le2'], algo=cfg.get('algo2', cfg['algo']))
        st, f = self.native_fill(nat, c1, inp)
        if st != 'OK':
            return st, f
        le1 = '\r\n' if cfg['le1'] == 'CRLF' else '\n'
        le2 = '\r\n' if cfg['le2'] == 'CRLF' else '\n'
        s = f.py() + (le1 if cfg['trail'] else '')
        st, r = nat.call('refill %s %s' % (N.hexs(s), self.nopts(c2, dict(inp, ii='', si=''), W=inp['W2'])))
        if st != 'OK':
            return st, r
        st, d = self.native_fill(nat, c2, inp, W=inp['W2'])
        if st != 'OK':
            return st, d
        return 'OK', {'filled': f, 'refilled': T(N.unhex(r)), 'direct': T(d.py() + (le2 if cfg['trail'] else ''))}

    def oracle(self, I, cfg, inp, out):
        I.check(seq_eq(out['refilled'].chars, out['direct'].chars), 'refill-equals-fill',
                'refill(fill(t, o1), o2) differs from fill(t, o2 with the indents of o1)')


HARNESS = C16()
