"""C13 — ANSI colour codes do not change where lines break."""
import z3
from harness import *
from wrapbase import *

TOKS = ['\x1b[1m', '\x1b]8;;x\x1b\\', '\x1b]0;c:\\a\x07', '\x1b[38;2;255;128;0m']


class C13(WrapHarness):
    prop = 'C13'
    features = ('full', 'nd')
    validate_every = 7

    def spaces(self, tier, seed):
        q = tier == 'quick'
        out = []
        for feat in ('full', 'nd'):
            for algo in (('F', 'O') if feat == 'full' else ('F',)):
                for sep in (('A', 'U') if feat == 'full' else ('A',)):
                    for split in ('N', 'H'):
                        for bw in (True, False):
                            if q and ((feat == 'nd' and (split == 'N' or not bw)) or (algo == 'O' and split == 'N')):
                                continue
                            c = {'feat': feat, 'algo': algo, 'sep': sep, 'split': split, 'bw': bw, 'n': 3 if q else 4,
                                 'ntok': (1 if algo == 'O' else 2) if q else 2, 'wmax': 1 << 20}
                            if sep == 'U':
                                c['alpha'] = [' ', 'a', '-', '你'] if q else [' ', 'a', '-', '你', '\n', '́', ')']
                            out.append(c)
        if not q:      # three sequences on three visible characters
            out.append({'feat': 'full', 'algo': 'F', 'sep': 'A', 'split': 'H', 'bw': True, 'n': 3, 'ntok': 3, 'wmax': 1 << 20})
        # sentence templates with one (thorough: also two) inserted sequence(s) at every position
        tb = {'feat': 'full', 'algo': 'F', 'sep': 'A', 'split': 'H', 'bw': True, 'n': 0, 'ntok': 1, 'wmax': 1 << 20}
        out += tmpl_spaces(tb, ['short'] if q else ['short', 'sentence', 'longword', 'hyphens'])
        if not q:
            out += tmpl_spaces(dict(tb, ntok=2), ['short', 'longword'])
            out += tmpl_spaces(dict(tb, algo='O'), ['short', 'longword'])
            out += tmpl_spaces(dict(tb, bw=False, split='N'), ['sentence'])
        return out

    def bounds_text(self, tier):
        q = tier == 'quick'
        return ('texts of <= %d visible characters (symbolic 1-byte for the ASCII separator, a stated alphabet for the '
                'Unicode separator) with <= %d well-formed sequences (SGR ESC[1m, truecolor ESC[38;2;255;128;0m, hyperlink '
                'ESC]8;;x ESC\\, title ESC]0;c:\\a BEL) inserted so '
                'that each touches a non-space character (and no hyphen when the hyphen splitter is active); all widths, '
                'both algorithms, both separators, break_words on/off' % (3 if q else 4, 2))

    def gen_coloured(self, I, cfg):
        hy = cfg['split'] == 'H'
        if 'tmpl' in cfg:
            vis = list(gen_tmpl(I, cfg['tmpl'], exclude=(ESC, 13)).chars)
            n = len(vis)
        else:
            n = I.choose(cfg['n'] + 1, 'len')
            vis = []
        for i in range(0 if 'tmpl' in cfg else n):
            if 'alpha' in cfg:
                ch = cfg['alpha'][I.choose(len(cfg['alpha']), 'alpha')]
                vis.append((ord(ch), utf8len(ord(ch))))
            else:
                vis.append((I.sym_char('c%d' % i, 0, 0x7f, exclude=(ESC, 13)), 1))
        coloured = []
        ntok = 0

        def nonspace(c):
            if is_sym(c):
                I.add(c != 32)
                I.add(c != 10)
                if hy:
                    I.add(c != 45)
                return True
            return c not in (32, 10) and not (hy and c == 45)

        for i in range(n + 1):
            if ntok < cfg['ntok'] and n > 0 and I.choose(2, 'tok'):
                # the sequence touches the character before or after it, which must be non-space (non-hyphen);
                # with the hyphen splitter neither neighbour may be a hyphen
                nb = []
                if i > 0:
                    nb.append(vis[i - 1][0])
                if i < n:
                    nb.append(vis[i][0])
                ok = False
                pick = I.choose(len(nb), 'touch')
                if not nonspace(nb[pick]):
                    raise Infeasible()
                if hy:
                    for c in nb:
                        if is_sym(c):
                            I.add(c != 45)
                        elif c == 45:
                            raise Infeasible()
                tok = TOKS[I.choose(len(TOKS), 'which')]
                coloured += [(ord(x), 1) for x in tok]
                ntok += 1
            if i < n:
                coloured.append(vis[i])
        return Txt(coloured), Txt(vis), ntok

    def run(self, I, cfg):
        col, plain, ntok = self.gen_coloured(I, cfg)
        W = I.sym_int('W', 0, cfg['wmax'])
        inp = {'text': col, 'plain': plain, 'W': W, 'ii': Txt([]), 'si': Txt([]), 'ntok': ntok}
        I.inputs = inp
        out = {'col': self.run_wrap(I, cfg, inp, text=col), 'plain': self.run_wrap(I, cfg, inp, text=plain)}
        self.oracle(I, cfg, inp, out)
        return out

    def native(self, nat, cfg, inp):
        st, a = self.native_wrap(nat, cfg, inp, text=inp['text'])
        if st != 'OK':
            return st, a
        st, b = self.native_wrap(nat, cfg, inp, text=inp['plain'])
        if st != 'OK':
            return st, b
        return 'OK', {'col': a, 'plain': b}

    def oracle(self, I, cfg, inp, out):
        S = self.spec
        col = [l['txt'].chars for l in out['col']]
        plain = [l['txt'].chars for l in out['plain']]
        if not I.check(len(col) == len(plain), 'same-line-count',
                       'coloured text wraps into %d lines, the plain text into %d' % (len(col), len(plain))):
            return
        nesc = 0
        for k, (a, b) in enumerate(zip(col, plain)):
            stripped = S.strip_ansi(I, a, sym_not_esc=True)[0]
            I.check(seq_eq(stripped, b), 'same-breaks', 'line %d without its sequences differs from the plain line' % k)
            # every sequence intact
            i = 0
            while i < len(a):
                c = a[i][0]
                if not is_sym(c) and c == ESC:
                    ok = False
                    for tok in TOKS:
                        seg = a[i:i + len(tok)]
                        if len(seg) == len(tok) and all((not is_sym(x[0])) and x[0] == ord(t) for x, t in zip(seg, tok)):
                            ok = True
                            i += len(tok)
                            nesc += 1
                            break
                    if not ok:
                        I.check(False, 'sequence-cut', 'line %d contains a cut escape sequence' % k)
                        return
                else:
                    i += 1
        I.check(nesc == inp['ntok'], 'sequence-dropped', '%d sequences in, %d out' % (inp['ntok'], nesc))

    def decode(self, cfg, inputs):
        return {k: (T(v) if isinstance(v, str) else v) for k, v in inputs.items()}


HARNESS = C13()
