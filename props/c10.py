"""C10 — display_width is the sum of character widths outside ANSI sequences."""
import z3
from harness import *

CSI_TOKENS = ['csi0', 'csi1', 'csi3', 'osc_bel0', 'osc_bel1', 'osc_st1', 'osc_bel3', 'osc_bel2', 'osc_st2']


C10_TEMPLATES = [
    '\x1b[31mre?\x1b[0m gr\u00bfen \x1b]8;;u\x07l?nk\x1b]8;;\x1b\\ \u203d',
    'x? \u4f60\u597d?\u4e16\u754c a\u0301\u00bf ?\x1b[1;38;5;12mz',
    '\x1b]0;t?tle\x07?\x1b[K\U0001f602\u203d\u200b?',
]


def static_vis(tmpl):
    """visibility mask of a template whose sequences are all concrete and well-formed"""
    vis = []
    i = 0
    n = len(tmpl)
    while i < n:
        if tmpl[i] != '\x1b':
            vis.append(True)
            i += 1
            continue
        j = i + 1
        if tmpl[j] == '[':
            j += 1
            while not ('@' <= tmpl[j] <= '~'):
                j += 1
            j += 1
        elif tmpl[j] == ']':
            j += 1
            while True:
                if tmpl[j] == '\x07':
                    j += 1
                    break
                if tmpl[j] == '\x1b' and tmpl[j + 1] == '\\':
                    j += 2
                    break
                j += 1
        else:
            j += 1
        vis += [False] * (j - i)
        i = j
    return vis


class C10(Harness):
    prop = 'C10'
    features = ('full', 'nd')
    validate_every = 5

    def spaces(self, tier, seed):
        out = []
        q = tier == 'quick'
        for feat in ('full', 'nd'):
            # (a)+(c): well-formed sequences as explicit tokens, visible characters class-symbolic and != ESC
            out.append({'feat': feat, 'mode': 'wellformed', 'n': 3 if q else 4})
            # (b): additivity over concatenation of ESC-free strings
            out.append({'feat': feat, 'mode': 'additive', 'n': 4 if q else 5})
            # (d): width <= byte length for every string, malformed sequences included
            out.append({'feat': feat, 'mode': 'anytext', 'n': 4 if q else 6})
            # per-scalar clause: one arbitrary character of each UTF-8 length class (all scalar values)
            out.append({'feat': feat, 'mode': 'scalar', 'n': 1})
            # paragraph-sized well-formed texts: concrete CSI/OSC sequences, symbolic visible characters
            for t in C10_TEMPLATES:
                out.append({'feat': feat, 'mode': 'wellformed', 'n': 0, 'tmpl': t})
        return out

    def bounds_text(self, tier):
        q = tier == 'quick'
        return ('strings of <= %d positions (wellformed: each position is a character of any UTF-8 length class, != ESC, or '
                'one of the sequence shapes ESC[F, ESC[PF, ESC]BEL, ESC]X BEL, ESC]X ESC\\ with symbolic F,P,X), '
                '<= %d characters for additivity, <= %d arbitrary characters (ESC anywhere) for width<=len; every code '
                'point symbolic within its length class; both feature sets. Longer strings are outside the claim.'
                % (3 if q else 4, 4 if q else 5, 4 if q else 6))

    # -------------------------------------------------------------- generators
    def gen_wellformed(self, I, n):
        n = I.choose(n + 1, 'len')
        chars, vis = [], []
        opts = [1, 2, 3, 4] + CSI_TOKENS
        for i in range(n):
            o = opts[I.choose(len(opts), 'pos')]
            if isinstance(o, int):
                lo, hi = CLASS_RANGE[o]
                c = I.sym_char('c%d' % i, lo, hi, exclude=(ESC,) if o == 1 else ())
                chars.append((c, o))
                vis.append(True)
                continue
            seq = [ESC]
            if o.startswith('csi'):
                seq.append(ord('['))
                if o == 'csi1':
                    p = I.sym_char('p%d' % i, 0, 0x7f, exclude=(ESC,))
                    I.add(z3.Or(z3.ULT(p, 0x40), z3.UGT(p, 0x7e)))
                    seq.append(p)
                elif o == 'csi3':
                    # a parameter character outside ASCII can never be the final byte
                    k = (2, 3, 4)[I.choose(3, 'pclass')]
                    lo, hi = CLASS_RANGE[k]
                    seq.append((I.sym_char('q%d' % i, lo, hi), k))
                f = I.sym_char('f%d' % i, 0x40, 0x7e)
                seq.append(f)
            else:
                seq.append(ord(']'))
                if o in ('osc_bel2', 'osc_st2'):
                    x = I.sym_char('x%d' % i, 0, 0x7f, exclude=(7, ESC))
                    y = I.sym_char('z%d' % i, 0, 0x7f, exclude=(7, ESC))
                    seq += [x, y]
                elif o == 'osc_bel3':
                    k = (2, 3, 4)[I.choose(3, 'pclass')]
                    lo, hi = CLASS_RANGE[k]
                    seq.append((I.sym_char('y%d' % i, lo, hi), k))
                elif o != 'osc_bel0':
                    x = I.sym_char('x%d' % i, 0, 0x7f, exclude=(7, ESC))
                    seq.append(x)
                if o in ('osc_st1', 'osc_st2'):
                    seq += [ESC, ord('\\')]
                else:
                    seq.append(7)
            for c in seq:
                chars.append(c if isinstance(c, tuple) else (c, 1))
                vis.append(False)
        return Txt(chars), vis

    def run(self, I, cfg):
        mode = cfg['mode']
        n = cfg['n']
        if mode == 'wellformed' and 'tmpl' in cfg:
            # a symbolic payload character must not end its sequence: ESC and BEL excluded at symbolic positions
            t = gen_tmpl(I, cfg['tmpl'], exclude=(ESC, 7))
            vis = static_vis(cfg['tmpl'])
            I.inputs = {'text': t, 'vis': vis}
            w = I.run('display_width', [to_str(t)])
            plain = Txt([c for c, v in zip(t.chars, vis) if v])
            w2 = I.run('display_width', [to_str(plain)])
            out = {'w': w, 'w_plain': w2}
        elif mode == 'wellformed':
            t, vis = self.gen_wellformed(I, n)
            I.inputs = {'text': t, 'vis': vis}
            w = I.run('display_width', [to_str(t)])
            plain = Txt([c for c, v in zip(t.chars, vis) if v])
            w2 = I.run('display_width', [to_str(plain)])
            out = {'w': w, 'w_plain': w2}
        elif mode == 'additive':
            k = I.choose(n + 1, 'split')
            x = gen_text(I, k, 'x', (1, 2, 3, 4), exclude=(ESC,))
            y = gen_text(I, n - k, 'y', (1, 2, 3, 4), exclude=(ESC,))
            I.inputs = {'x': x, 'y': y}
            out = {'wx': I.run('display_width', [to_str(x)]), 'wy': I.run('display_width', [to_str(y)]),
                   'wxy': I.run('display_width', [to_str(Txt(x.chars + y.chars))])}
        elif mode == 'anytext':
            t = gen_text(I, n, 'c', (1, 2, 3, 4), lenvar=True)
            I.inputs = {'text': t}
            out = {'w': I.run('display_width', [to_str(t)])}
        else:
            t = gen_text(I, 1, 'c', (1, 2, 3, 4), exclude=(ESC,))
            I.inputs = {'text': t}
            out = {'w': I.run('display_width', [to_str(t)])}
        self.oracle(I, cfg, I.inputs, out)
        return out

    def native(self, nat, cfg, inp):
        def dw(s):
            st, r = nat.call('dw ' + N.hexs(s))
            if st != 'OK':
                raise _P(r)
            return int(r)

        class _P(Exception):
            pass
        try:
            mode = cfg['mode']
            if mode == 'wellformed':
                plain = ''.join(c for c, v in zip(inp['text'], inp['vis']) if v)
                return 'OK', {'w': dw(inp['text']), 'w_plain': dw(plain)}
            if mode == 'additive':
                return 'OK', {'wx': dw(inp['x']), 'wy': dw(inp['y']), 'wxy': dw(inp['x'] + inp['y'])}
            return 'OK', {'w': dw(inp['text'])}
        except _P as e:
            return 'PANIC', str(e)

    def oracle(self, I, cfg, inp, out):
        S = self.spec
        mode = cfg['mode']
        if mode == 'wellformed':
            t = inp['text']
            vis = inp['vis']
            expect = v_sum([S.char_width(I, c) for (c, _), v in zip(t.chars, vis) if v])
            I.check(v_eq(out['w'], expect), 'sum-of-visible-widths',
                    'display_width differs from the sum of the widths of the characters outside CSI/OSC sequences')
            I.check(v_eq(out['w'], out['w_plain']), 'sequence-insertion-invariance',
                    'inserting well-formed sequences changed the display width')
        elif mode == 'additive':
            I.check(v_eq(out['wxy'], v_add(out['wx'], out['wy'])), 'additive', 'dw(x++y) != dw(x)+dw(y)')
        elif mode == 'anytext':
            I.check(v_le(out['w'], inp['text'].blen()), 'width-le-bytes', 'display width exceeds the byte length')
        else:
            c = inp['text'].chars[0][0]
            I.check(v_eq(out['w'], S.char_width(I, c)), 'per-scalar', 'width of a single character differs from the table')

    def shape(self, cfg, inputs, clause):
        return '%s/%s' % (cfg['mode'], cfg['feat'])

    # ---------------------------------------------------------------- engine B: Kani cross-check (compiled code)
    def start_background(self, tier):
        """cargo kani on harness b1_single_char_width (kani/src/lib.rs): every scalar value except ESC through the
        real compiled display_width and the real unicode-width tables.  Runs while engine A explores."""
        import os
        import shutil
        import subprocess
        import hashlib
        verif = os.path.dirname(os.path.dirname(os.path.abspath(__file__)))
        repo = os.path.realpath(os.environ.get('VERIF_REPO', '/repo'))
        scratch = os.environ.get('VERIF_SCRATCH', '/var/tmp/verif-scratch')
        crate = os.path.join(verif, 'kani')
        if repo != '/repo':
            crate = os.path.join(scratch, 'kani-' + hashlib.sha1(repo.encode()).hexdigest()[:10])
            shutil.rmtree(crate, ignore_errors=True)
            shutil.copytree(os.path.join(verif, 'kani'), crate, ignore=shutil.ignore_patterns('target'))
            t = open(os.path.join(crate, 'Cargo.toml')).read().replace('path = "/repo"', 'path = "%s"' % repo)
            open(os.path.join(crate, 'Cargo.toml'), 'w').write(t)
        env = dict(os.environ)
        env['CARGO_NET_OFFLINE'] = 'true'
        env.pop('RUSTFLAGS', None)
        # one cargo target directory per tree under test: concurrent checks of different trees must not wait for each
        # other's cargo lock (a seeded tree checked while /repo is being checked made Kani time out once)
        tgt = os.path.join(scratch, 'kani-target' if repo == '/repo' else 'kani-target-' + hashlib.sha1(repo.encode()).hexdigest()[:10])
        os.makedirs(tgt, exist_ok=True)
        cmd = 'ulimit -v 12000000; exec timeout 900 cargo kani --harness b1_single_char_width --target-dir %s' % tgt
        import time
        bg = {'cmd': cmd, 'crate': crate, 'env': env, 'tgt': tgt, 'scratch_tgt': repo != '/repo', 'tries': 1}
        bg['p'] = subprocess.Popen(['bash', '-c', cmd], cwd=crate, env=env, stdout=subprocess.PIPE,
                                   stderr=subprocess.STDOUT, text=True)
        bg['t0'] = time.time()
        return bg

    def finish_background(self, bg):
        import re
        import time
        out, _ = bg['p'].communicate()
        secs = time.time() - bg['t0']
        ok = 'VERIFICATION:- SUCCESSFUL' in out and bg['p'].returncode == 0
        failed = 'VERIFICATION:- FAILED' in out
        m = re.search(r'\*\* (\d+) of (\d+) failed', out)
        cov = re.search(r'(\d+) of (\d+) cover properties satisfied', out)
        res = {'engine': 'kani 0.68 / CBMC (cadical)', 'harness': 'b1_single_char_width', 'unwind': 3,
               'claim': 'for every Unicode scalar value except ESC: display_width(c) == UnicodeWidthChar::width(c).unwrap_or(0) '
                        'and display_width(c) <= len_utf8(c), on the compiled crate with the real tables; unwinding '
                        'assertions on', 'seconds': round(secs, 1), 'successful': ok,
               'checks': (int(m.group(2)) if m else None), 'failed_checks': (int(m.group(1)) if m else None),
               'covers_satisfied': cov.group(0) if cov else None}
        status = 'ok' if ok else ('disagree' if failed else 'inconclusive')
        if status == 'inconclusive' and bg.get('tries', 1) < 2:
            # timed out / killed while engine A was using every core: once more, now that the machine is free
            import subprocess
            bg['tries'] = 2
            bg['p'] = subprocess.Popen(['bash', '-c', bg['cmd']], cwd=bg['crate'], env=bg['env'], stdout=subprocess.PIPE,
                                       stderr=subprocess.STDOUT, text=True)
            bg['t0'] = time.time()
            return self.finish_background(bg)
        if not ok:
            res['tail'] = out[-1500:]
        res['attempts'] = bg.get('tries', 1)
        if bg.get('scratch_tgt'):
            import shutil
            shutil.rmtree(bg['tgt'], ignore_errors=True)
            shutil.rmtree(bg['crate'], ignore_errors=True)
        return status, res


HARNESS = C10()
