"""C02 — first-fit lines fit the width unless the line is one unbreakable fragment."""
import z3
from harness import *
from wrapbase import *

TOK = ['\x1b[m', '\x1b]8;;\x1b\\']
ALPHA2 = [' ', 'a', '-', '\n', '你', '́', ' ', ')', '\x1b[m']


def native_linebreaks(nat, s):
    st, r = nat.call('linebreaks ' + N.hexs(s))
    if st != 'OK':
        raise Unsupported('native linebreaks failed')
    return [int(e.split(':')[0]) for e in r.split()]


class C02(WrapHarness):
    prop = 'C02'
    validate_every = 9

    def spaces(self, tier, seed):
        q = tier == 'quick'
        out = []
        for feat in ('full', 'nd'):
            for sep in (('A', 'U') if feat == 'full' else ('A',)):
                for split in ('N', 'H'):
                    for bw in (True, False):
                        for ind in ('none', 'both'):
                            c = {'feat': feat, 'algo': 'F', 'sep': sep, 'split': split, 'bw': bw, 'ind': ind, 'imax': 1}
                            if sep == 'A':
                                c.update(gen='sym1x', n=3 if q else 4, tokens=TOK[:1])
                            else:
                                c.update(gen='alpha', alphabet=ALPHA2[:6] if q else ALPHA2, n=3 if q else 4)
                            if ind == 'both' and feat == 'nd' and q:
                                continue
                            out.append(c)
        base = {'feat': 'full', 'algo': 'F', 'sep': 'A', 'split': 'H', 'bw': True, 'imax': 1}
        out.append(dict(base, gen='symallx', n=2 if q else 3, ind='si', icl=(1, 3)))
        out.append(dict(base, gen='sym1x', n=4 if q else 5, ind='si', tokens=()))
        out.append(dict(base, gen='sym1x', n=4 if q else 5, ind='ii', tokens=(), bw=False))
        out.append(dict(base, gen='sym1x', n=3 if q else 4, ind='both', le='CRLF', tokens=TOK))
        out += std_tmpl_spaces(dict(base, ind='none'), q, variants=False, cind=True)
        out += atmpl_spaces(dict(base, ind='si' if q else 'both'), ['short', 'wide'] if q else ['short', 'wide', 'sentence', 'hyphens'],
                            ALPHA2[:5] if q else ALPHA2)
        out += std_tmpl_spaces(dict(base, ind='both'), q, variants=False)
        if not q:
            out += tmpl_spaces(dict(base, ind='si', bw=False), ['sentence', 'paras', 'hyphens', 'wide'])
            out.append(dict(base, gen='sym1x', n=4, ind='both', imax=2, tokens=()))
            out.append(dict(base, gen='symallx', n=4, ind='both', icl=(1, 3), bw=False))
        return out

    def bounds_text(self, tier):
        return ('first-fit only; texts of <= 3-5 characters whose ESCs occur only inside the well-formed tokens ESC[m / '
                'ESC]8;;ESC\\ (symbolic 1-byte characters != ESC, all four UTF-8 classes at <= 3-4; Unicode separator over '
                'a stated alphabet), all widths 0..2^64-1, symbolic indents of <= 1 (2) characters which may be wider than '
                'the width, paragraphs via symbolic LF / CRLF, NoHyphenation and HyphenSplitter, break_words on/off')

    def run(self, I, cfg):
        inp = self.gen(I, cfg)
        I.inputs = inp
        out = self.run_wrap(I, cfg, inp)
        self.oracle(I, cfg, inp, out)
        return out

    def native(self, nat, cfg, inp):
        return self.native_wrap(nat, cfg, inp)

    def oracle(self, I, cfg, inp, lines):
        S = self.spec
        W = inp['W']
        bw = cfg.get('bw', True)
        for k, ln in enumerate(lines):
            ind = (inp['ii'] if k == 0 else inp['si']).chars
            cs = ln['txt'].chars
            w = S.display_width(I, cs, sym_not_esc=True)
            if I.branch(v_le(w, W)):
                continue
            if len(cs) < len(ind):
                continue        # C08's business
            rem = cs[len(ind):]
            vis = S.strip_ansi(I, rem, sym_not_esc=True)[0]
            if bw:
                nz = v_sum([v_ite(v_lt(0, S.char_width(I, c)), 1, 0) for c, _ in vis])
                I.check(v_le(nz, 1), 'overwide-line-breakable-by-chars',
                        'line %d is wider than the width although break_words could have narrowed it' % k)
                continue
            # break_words off: no separator opportunity and no split point inside the remainder
            if cfg.get('sep', 'A') == 'A':
                conds = [v_not(v_and(v_eq(a[0], 32), v_ne(b[0], 32))) for a, b in zip(rem, rem[1:])]
                I.check(v_and(*conds), 'overwide-line-has-space-opportunity',
                        'line %d is wider than the width but contains a space followed by a non-space' % k)
            else:
                if any(is_sym(c) for c, _ in vis):
                    raise Unsupported('unicode opportunities on symbolic text')
                s = ''.join(chr(c) for c, _ in vis)
                nat = I.native
                ops = [i for i in native_linebreaks(nat, s) if i < len(s.encode())]
                b = s.encode()
                ops = [i for i in ops if not (b[:i].decode()[-1:] in ('-', '­'))]
                I.check(len(ops) == 0, 'overwide-line-has-unicode-opportunity',
                        'line %d is wider than the width but has a UAX#14 break opportunity at %r' % (k, ops))
            if cfg.get('split', 'H') == 'H':
                al = self.tables
                conds = []
                for i in range(1, len(rem) - 1):
                    def alnum(cp):
                        if is_sym(cp):
                            lo, hi = I.cp_range.get(cp.get_id(), (0, 0x10FFFF))
                            return al.pred('alphanumeric', 1, cp, lo, hi)
                        return al.lookup('alphanumeric', cp) == 1
                    conds.append(v_not(v_and(v_eq(rem[i][0], ord('-')), alnum(rem[i - 1][0]), alnum(rem[i + 1][0]))))
                I.check(v_and(*conds), 'overwide-line-has-hyphen-split',
                        'line %d is wider than the width but contains a hyphen split point' % k)

    def shape(self, cfg, inputs, clause):
        le = '\r\n' if cfg.get('le') == 'CRLF' else '\n'
        multi = le in inputs['text']
        return clause + ('/later-paragraph' if multi and (inputs['ii'] != inputs['si']) else '')


HARNESS = C02()
