"""C06 — both line-breaking algorithms return an ordered partition of the fragments."""
from fragbase import *
from kernelfit import FitKernels


class C06(FitKernels, FragHarness):
    prop = 'C06'
    validate_every = 4
    panic_policy = 'vacuous'

    def spaces(self, tier, seed):
        q = tier == 'quick'
        out = []
        for nlw in (0, 1, 2, 3):
            for n in range(0, (4 if q else 6) + 1):
                out.append({'algo': 'F', 'num': 'int', 'n': n, 'nlw': nlw, 'B': 1 << 40, 'LB': 1 << 52, 'SB': 1 << 20, 'PB': 1 << 20})
            for n in range(0, (2 if q else 3) + 1):
                out.append({'algo': 'F', 'num': 'fp', 'n': n, 'nlw': nlw, 'float_mode': 'fp'})
            # optimal-fit end to end (cost closure + smawk + back-tracking) on integer widths; n = 4 took > 30 min
            # with solver time-outs on the gap*gap path conditions and is left to the decomposition below
            # (smawk contract on arbitrary matrices up to size 8 + back-tracking kernel), which does not need them
            for n in range(0, 3 + 1):
                if nlw == 3 and (n < 3 or q):
                    continue
                out.append({'algo': 'O', 'num': 'int', 'n': n, 'nlw': nlw, 'B': 1 << 10, 'LB': 1 << 12, 'SB': 3, 'PB': 2})
        # engine C: one iteration of each algorithm's line-emitting loop from an arbitrary state satisfying the
        # stated invariant (fragment lists of ANY length), and the contract of smawk::online_column_minima that the
        # optimal-fit step assumes, over an arbitrary (unconstrained, even non-deterministic) matrix
        out.append({'level': 'kernel-ff', 'algo': 'F', 'num': 'int'})
        out.append({'level': 'kernel-ff', 'algo': 'F', 'num': 'fp', 'float_mode': 'fp'})
        out.append({'level': 'kernel-bt', 'algo': 'O'})
        for size in range(1, (5 if q else 7) + 1):
            out.append({'level': 'smawk', 'algo': 'O', 'num': 'fp', 'float_mode': 'fp', 'size': size})
        out.append({'level': 'smawk', 'algo': 'O', 'num': 'int', 'size': 6 if q else 8})
        # symbolic penalties for optimal-fit
        out.append({'algo': 'O', 'num': 'int', 'n': 2 if q else 3, 'nlw': 1, 'B': 64, 'LB': 256, 'SB': 2, 'PB': 1, 'sympen': True})
        return out

    def bounds_text(self, tier):
        q = tier == 'quick'
        return ('first-fit: 0..%d fragments with symbolic integer widths/whitespace/penalty widths up to 2^40 (exact f64 '
                'encoding) and 0..%d fragments with arbitrary finite f64 values (z3 floating-point theory: zero, negative, '
                'fractional, subnormal), line-width lists of length 0..%d; optimal-fit through smawk MIR: 0..%d '
                'fragments, integer widths <= 2^10, default penalties, plus symbolic penalties (<= 2^12) at n <= %d. '
                'Any length (one loop iteration from an abstract state): the first-fit loop, and the back-tracking loop of '
                'optimal-fit under the row < column contract of smawk::online_column_minima; the contract itself on '
                'smawk MIR for matrices of size <= %d with unconstrained f64 entries (NaN and infinities included; every '
                'closure call returns a fresh value, so any cost function) and size %d with unconstrained integers. '
                'Outside: the cost closure itself with non-integer f64 widths (its panic-freedom on in-range indices is '
                'C04), LineNumbers::get beyond n <= %d.'
                % (4 if q else 6, 2 if q else 3, 2 if q else 3, 3, 2 if q else 3, 5 if q else 7, 6 if q else 8, 3))

    def run(self, I, cfg):
        lv = cfg.get('level')
        if lv == 'kernel-ff':
            return self.run_kernel_first_fit(I, cfg)
        if lv == 'kernel-bt':
            return self.run_kernel_backtrack(I, cfg)
        if lv == 'smawk':
            return self.run_smawk_contract(I, cfg)
        inp = self.gen_frags(I, cfg)
        if cfg.get('sympen'):
            pen = [I.sym_int('pen%d' % k, 0, 1 << 12) for k in range(5)]
            k = I.enumerate_int(pen[2], 'short_last_line_fraction', 3)     # divisor must be concrete in exact mode
            pen[2] = k
            inp['pen'] = pen
        I.inputs = inp
        out = self.run_algo(I, cfg, inp)
        self.oracle(I, cfg, inp, out)
        return out

    def native(self, nat, cfg, inp):
        if cfg.get('level') == 'smawk':
            return self.native_smawk(nat, cfg, inp)
        return FragHarness.native(self, nat, cfg, inp)

    def oracle(self, I, cfg, inp, cuts):
        if cfg.get('level') == 'smawk':
            return self.smawk_oracle(I, cfg, inp, cuts)
        self.partition_oracle(I, len(inp['frags']), cuts)


HARNESS = C06()
