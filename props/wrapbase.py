"""Common machinery of the wrap()/fill()-level harnesses (C01, C02, C05, C07, C08, C09, C13, C14)."""
import z3
from harness import *

ALPHA_U = [' ', 'a', '-', ' ', '­', '́', '​', '⁠', '你', '\U0001f602', ')', '\t']


# sentence templates for the 'tmpl' generator ('?': symbolic 1-byte character, see WrapHarness.gen_text)
TEMPLATES = {
    'sentence': 'The qu?ck brown-f?x  jumps ?ver',          # hyphen, double space, 5 words
    'paras': 'ab ?d\n\n e?-gh i \nj?',                      # empty paragraph, leading / trailing spaces
    'wide': 'x? \u4f60\u597d?\u4e16\u754c ab\u0301c ?z',       # double-width and combining characters
    'longword': 'aaaa?aaaaaaa bb ?c',                       # word that must be force-broken
    'hyphens': 'a-b-?-d e?f-g -?',                          # many hyphen split points
    'crlf': 'ab?\r\ncd ?f\r\n',                             # CRLF line endings
    'ansi': '\x1b[31mre?\x1b[0m gr?en \x1b]8;;u\x07l?nk\x1b]8;;\x07 x',   # CSI and OSC sequences
    'short': 'a b?c de-f g',
    # word force-broken into >= 2 pieces with a symbolic character in the LAST piece, then a word that fits exactly
    # (only where named explicitly: C14)
    'lastpiece': 'aaaa?aaa?a bb c',
}


def reseed_template(t, seed):
    """the same sentence with its symbolic positions moved: seed 0 is the table entry; any other seed makes the
    entry concrete ('?' -> 'o') and re-places as many '?' at pseudo-randomly chosen letter / space / hyphen positions
    outside escape sequences.  VERIF_SEED selects the variant of every template space; the thorough tier adds
    variants 1 and 2 of the multi-word templates on its own."""
    if not seed:
        return t
    import random
    rnd = random.Random(seed * 1000003 + sum(ord(c) for c in t))
    k = t.count('?')
    base = list(t.replace('?', 'o'))
    cand = []
    esc = 0
    for i, ch in enumerate(base):
        if ch == '\x1b':
            esc = 1
        elif esc:
            if esc == 1 and ch == ']':
                esc = 2
            elif (esc == 1 and ch == '[') or (esc == 3):
                esc = 3 if not ('@' <= ch <= '~' and ch != '[') else 0
            elif esc == 2 and ch == '\x07':
                esc = 0
            elif esc == 1:
                esc = 0
        elif ch.isascii() and (ch.isalpha() or ch in ' -'):
            cand.append(i)
    for i in rnd.sample(cand, min(k, len(cand))):
        base[i] = '?'
    return ''.join(base)


def tmpl_spaces(base, names, variant=None, **kw):
    import os
    seed = int(os.environ.get('VERIF_SEED', '0') or 0) if variant is None else variant
    return [dict(base, gen='tmpl', tmpl=reseed_template(TEMPLATES[n], seed), tname=n if not seed else '%s~%d' % (n, seed), **kw)
            for n in names]


def atmpl_spaces(base, names, alphabet, **kw):
    """Unicode-separator counterpart of tmpl_spaces: '?' positions fork over `alphabet`"""
    return [dict(base, sep='U', gen='atmpl', tmpl=TEMPLATES[n], tname=n, alphabet=list(alphabet), **kw) for n in names]


def std_tmpl_spaces(base, q, variants=True, names=None, cind=False, **kw):
    """the standard template spaces of a wrap-level property: quick: three cheap templates; thorough: all of them,
    plus (variants) break_words off and symbolic indents on the multi-word ones.  cind: also realistic concrete
    multi-column indent pairs (hanging indent, leading indent, bullet) -- the symbolic indents used elsewhere are one
    or two characters long, too short for bugs that need `subsequent - initial >= 2 columns`."""
    cinds = [('', '    '), ('      ', ''), ('* ', '  ')]
    if q:
        out = tmpl_spaces(base, names or ['short', 'longword', 'crlf'], **kw)
        if cind:
            for ci in cinds:
                out += tmpl_spaces(dict(base, cind=ci, ind='none'), ['paras'], **kw)
        return out
    names = names or [n for n in TEMPLATES if n not in ('short', 'lastpiece')]
    out = tmpl_spaces(base, names, **kw)
    multi = [n for n in names if n in ('sentence', 'paras', 'hyphens', 'wide')]
    if variants:
        out += tmpl_spaces(dict(base, bw=False), multi, **kw)
        out += tmpl_spaces(dict(base, ind='both', imax=1), multi, **kw)
    if cind:
        for ci in cinds:
            out += tmpl_spaces(dict(base, cind=ci, ind='none'), ['paras', 'sentence', 'longword'], **kw)
            out += tmpl_spaces(dict(base, cind=ci, ind='none', bw=False), ['paras'], **kw)
    import os
    if not int(os.environ.get('VERIF_SEED', '0') or 0):
        for v in (1, 2):      # the symbolic positions moved elsewhere in the same sentences
            out += tmpl_spaces(base, multi, variant=v, **kw)
    return out


def custom_split(kind):
    def fn(I, word):
        st = word if isinstance(word, Str) else deref(word)
        pts = []
        off = 0
        for i, (cp, nb) in enumerate(st.chars()):
            if i > 0:
                pts.append(off)
            off += nb
        if kind == 'C2':
            pts = pts[:1]
        elif kind == 'C3':
            pts = pts[-1:]
        return RVec(pts)
    return PyFn(fn, kind)


def seq_eq(a, b):
    """equality of two char sequences: structure (utf-8 lengths) concrete, code points possibly symbolic"""
    if len(a) != len(b):
        return False
    conds = []
    for (x, nx), (y, ny) in zip(a, b):
        if nx != ny:
            return False
        c = v_eq(x, y)
        if c is False:
            return False
        if c is not True:
            conds.append(c)
    return v_and(*conds)


def gen_indent(I, tag, maxlen, classes=(1,)):
    n = I.choose(maxlen + 1, 'indent-len')
    chars = []
    for i in range(n):
        k = classes[I.choose(len(classes), 'indent-class')]
        lo, hi = CLASS_RANGE[k]
        chars.append((I.sym_char('%s%d' % (tag, i), lo, hi, exclude=(ESC, 10, 13) if k == 1 else ()), k))
    return Txt(chars)


class WrapHarness(Harness):
    features = ('full', 'nd')
    wmax = U64
    wmax_optimal = 1 << 20

    def cfg_opts(self, cfg):
        return dict(le=cfg.get('le', 'LF'), bw=cfg.get('bw', True), algo=cfg.get('algo', 'F'), sep=cfg.get('sep', 'A'),
                    split=cfg.get('split', 'H'))

    def gen_text(self, I, cfg):
        g = cfg.get('gen', 'sym1')
        n = cfg.get('n', 0)
        if g == 'sym1':
            return gen_text(I, n, 'c', (1,), lenvar=cfg.get('lenvar', True))
        if g == 'sym1x':      # 1-byte, no ESC (ESC only inside well-formed tokens)
            return gen_text(I, n, 'c', (1,), exclude=(ESC,), lenvar=cfg.get('lenvar', True),
                            tokens=cfg.get('tokens', ()))
        if g == 'symall':
            return gen_text(I, n, 'c', (1, 2, 3, 4), lenvar=cfg.get('lenvar', True))
        if g == 'symallx':
            return gen_text(I, n, 'c', (1, 2, 3, 4), exclude=(ESC,), lenvar=cfg.get('lenvar', True),
                            tokens=cfg.get('tokens', ()))
        if g == 'words':
            # structured text: nwords words of 1..wl symbolic non-space characters separated by runs of 1..maxgap
            # spaces (optionally leading / trailing runs): reaches multi-word shapes beyond the flat N bound
            chars = []
            nw = cfg.get('nwords', 3)
            wl = cfg.get('wl', 1)
            mg = cfg.get('maxgap', 2)
            if cfg.get('lead'):
                chars += [(32, 1)] * I.choose(mg + 1, 'lead')
            for k in range(nw):
                if k:
                    chars += [(32, 1)] * (1 + I.choose(mg, 'gap'))
                for j in range(1 + I.choose(wl, 'wlen')):
                    chars.append((I.sym_char('w%d_%d' % (k, j), 0, 0x7f, exclude=(32, 10, 13, ESC)), 1))
            if cfg.get('trail'):
                chars += [(32, 1)] * I.choose(mg + 1, 'trail')
            return Txt(chars)
        if g == 'tmpl':
            # sentence template (harness.gen_tmpl): reaches paragraph shapes (5-8 words, 3-6 output lines at the
            # widths that matter) far beyond the flat N bound while width and indents stay fully symbolic
            return gen_tmpl(I, cfg['tmpl'])
        if g == 'atmpl':
            # template whose '?' positions fork over a stated alphabet: concrete text on every path, as the Unicode
            # separator (unicode_linebreak runs natively) needs
            chars = []
            for ch in cfg['tmpl']:
                tok = cfg['alphabet'][I.choose(len(cfg['alphabet']), 'alpha')] if ch == '?' else ch
                chars.extend((ord(c), utf8len(ord(c))) for c in tok)
            return Txt(chars)
        if g == 'symcls':
            return gen_text(I, n, 'c', tuple(cfg['classes']), lenvar=cfg.get('lenvar', True))
        if g == 'alpha':
            return gen_alpha(I, n, cfg['alphabet'], lenvar=cfg.get('lenvar', True))
        raise Unsupported('generator ' + g)

    def gen(self, I, cfg):
        text = self.gen_text(I, cfg)
        wmax = self.wmax if cfg.get('algo', 'F') == 'F' else self.wmax_optimal
        W = I.sym_int('W', 0, cfg.get('wmax', wmax))
        ind = cfg.get('ind', 'none')
        imax = cfg.get('imax', 1)
        icl = tuple(cfg.get('icl', (1,)))
        ii = gen_indent(I, 'i', imax, icl) if ind in ('ii', 'both') else Txt([])
        si = gen_indent(I, 's', imax, icl) if ind in ('si', 'both') else Txt([])
        if 'cind' in cfg:     # concrete multi-column indents (hanging indent, bullet): (initial, subsequent)
            ii = Txt([(ord(c), utf8len(ord(c))) for c in cfg['cind'][0]])
            si = Txt([(ord(c), utf8len(ord(c))) for c in cfg['cind'][1]])
        return {'text': text, 'W': W, 'ii': ii, 'si': si}

    def options(self, I, cfg, inp, W=None):
        o = self.cfg_opts(cfg)
        cs = custom_split(o['split']) if o['split'].startswith('C') else None
        return mk_options(I, inp['W'] if W is None else W, o['le'], inp['ii'], inp['si'], o['bw'], o['algo'], o['sep'],
                          'C' if cs else o['split'], custom_split=cs)

    def run_wrap(self, I, cfg, inp, text=None, W=None):
        t = to_str(inp['text'] if text is None else text)
        vec = I.run('wrap', [t, self.options(I, cfg, inp, W)])
        return lines_neutral(vec, t.b)

    def run_fill(self, I, cfg, inp, text=None, W=None):
        t = to_str(inp['text'] if text is None else text)
        s = I.run('fill', [t, self.options(I, cfg, inp, W)])
        return T(s)

    def nopts(self, cfg, inp, W=None):
        o = self.cfg_opts(cfg)
        return native_opts(inp['W'] if W is None else W, o['le'], inp['ii'], inp['si'], o['bw'], o['algo'], o['sep'],
                           o['split'])

    def native_wrap(self, nat, cfg, inp, text=None, W=None):
        st, r = nat.call('wrap %s %s' % (N.hexs(inp['text'] if text is None else text), self.nopts(cfg, inp, W)))
        if st != 'OK':
            return st, r
        return 'OK', lines_from_native(r)

    def native_fill(self, nat, cfg, inp, text=None, W=None):
        st, r = nat.call('fill %s %s' % (N.hexs(inp['text'] if text is None else text), self.nopts(cfg, inp, W)))
        if st != 'OK':
            return st, r
        return 'OK', T(N.unhex(r))

    def shape(self, cfg, inputs, clause):
        return clause

    def option_grid(self, tier, feats=('full', 'nd')):
        """the option combinations every wrap-level property is stated over"""
        out = []
        for feat in feats:
            algos = ('F', 'O') if feat == 'full' else ('F',)
            seps = ('A', 'U') if feat == 'full' else ('A',)
            for algo in algos:
                for sep in seps:
                    for split in ('N', 'H', 'C1'):
                        for bw in (True, False):
                            out.append({'feat': feat, 'algo': algo, 'sep': sep, 'split': split, 'bw': bw})
        return out
