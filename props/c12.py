"""C12 — splitting and force-breaking words is lossless, bounded and escape-safe."""
import z3
from harness import *
from wrapbase import seq_eq, custom_split

TOK = ['\x1b[m', '\x1b]8;;\x1b\\']


def word_neutral(w):
    return {'word': Txt(w.f[0].chars()), 'ws': Txt(w.f[1].chars()), 'pen': Txt(w.f[2].chars()), 'width': w.f[3]}


def drain(I, it):
    out = []
    while True:
        r = I.iter_next(it)
        if r.v == 0:
            return out
        out.append(r.f[0])


class C12(Harness):
    prop = 'C12'
    features = ('full', 'nd')
    validate_every = 5

    def spaces(self, tier, seed):
        q = tier == 'quick'
        out = []
        for feat in ('full', 'nd'):
            out.append({'feat': feat, 'mode': 'split_points', 'split': 'H', 'gen': 'sym1', 'n': 4 if q else 6})
            out.append({'feat': feat, 'mode': 'split_points', 'split': 'H', 'gen': 'symall', 'n': 3 if q else 4})
            out.append({'feat': feat, 'mode': 'split_points', 'split': 'H', 'gen': 'hyph', 'nseg': 3 if q else 4, 'maxhy': 2})
            if feat == 'full' or not q:
                out.append({'feat': feat, 'mode': 'split_words', 'split': 'H', 'gen': 'hyph', 'nseg': 3, 'maxhy': 1,
                            'seglen': 1 if q else 2, 'classes': (1,)})
            for sp in ('N', 'H', 'C1', 'C2', 'C3'):
                out.append({'feat': feat, 'mode': 'split_words', 'split': sp, 'gen': 'sym1', 'n': 3 if q else 5})
            out.append({'feat': feat, 'mode': 'split_words', 'split': 'H', 'gen': 'symall', 'n': 3 if q else 4})
            out.append({'feat': feat, 'mode': 'break_apart', 'gen': 'sym1x', 'n': 3 if q else 5, 'tokens': TOK})
            out.append({'feat': feat, 'mode': 'break_apart', 'gen': 'symallx', 'n': 3 if q else 4, 'tokens': TOK[:1]})
            out.append({'feat': feat, 'mode': 'break_words', 'gen': 'sym1x', 'n': 3 if q else 4, 'tokens': TOK[:1]})
        # word templates: realistic long / hyphenated / coloured / wide words with symbolic positions
        WT = ['foo-b?r-baz', 'x?--y-?z', 'a\u4f60?\u597dbc?', '\x1b[1mbo?d\x1b[0m-t?xt', 'aaaa?aaaaaaa', '?\u0301e\u0301-\u00bf']
        for t in WT:
            out.append({'feat': 'full', 'mode': 'split_points', 'split': 'H', 'gen': 'tmpl', 'tmpl': t})
            for sp in ('N', 'H', 'C1', 'C2', 'C3'):
                out.append({'feat': 'full', 'mode': 'split_words', 'split': sp, 'gen': 'tmpl', 'tmpl': t})
            out.append({'feat': 'full', 'mode': 'break_apart', 'gen': 'tmpl', 'tmpl': t})
            out.append({'feat': 'full', 'mode': 'break_words', 'gen': 'tmpl', 'tmpl': t})
        return out

    def bounds_text(self, tier):
        q = tier == 'quick'
        return ('words of <= %d symbolic 1-byte characters (<= %d of any UTF-8 class), ANSI tokens ESC[m / ESC]8;;ESC\\ in '
                'any position for force-breaking, limit = every value 0..2^64-1, incoming whitespace of 0..2 spaces and '
                'penalty "" or "-", splitters NoHyphenation / HyphenSplitter / two custom splitters; both feature sets'
                % (4 if q else 6, 3 if q else 4))

    def gen_word(self, I, cfg):
        g = cfg['gen']
        n = cfg.get('n', 0)
        if g == 'tmpl':
            return gen_tmpl(I, cfg['tmpl'], 'w')
        if g == 'hyph':
            # structured hyphenated word: 1..nseg segments of 1..2 symbolic characters joined by '-' (or '--')
            chars = []
            nseg = 1 + I.choose(cfg.get('nseg', 3), 'nseg')
            for k in range(nseg):
                if k:
                    chars += [(45, 1)] * (1 + I.choose(cfg.get('maxhy', 1), 'hy'))
                for j in range(1 + I.choose(cfg.get('seglen', 2), 'seglen')):
                    cl = cfg.get('classes', (1,))
                    kcl = cl[I.choose(len(cl), 'cls')]
                    lo, hi = CLASS_RANGE[kcl]
                    chars.append((I.sym_char('h%d_%d' % (k, j), lo, hi), kcl))
            return Txt(chars)
        if g == 'sym1':
            t = gen_text(I, n, 'c', (1,), lenvar=True)
        elif g == 'symall':
            t = gen_text(I, n, 'c', (1, 2, 3, 4), lenvar=True)
        elif g == 'sym1x':
            t = gen_text(I, n, 'c', (1,), exclude=(ESC,), lenvar=True, tokens=cfg.get('tokens', ()))
        else:
            t = gen_text(I, n, 'c', (1, 2, 3, 4), exclude=(ESC,), lenvar=True, tokens=cfg.get('tokens', ()))
        return t

    def mk_word(self, I, inp):
        word = to_str(inp['word'])
        return Agg('Word', [word, to_str(' ' * inp['nws'], 'ws'), to_str(inp['pen'], 'pen'), inp['cw']]), word

    def splitter(self, I, cfg):
        sp = cfg['split']
        P = I.prog
        if sp == 'N':
            return Enum('WordSplitter', P.variant_index('WordSplitter', 'NoHyphenation'), [])
        if sp == 'H':
            return Enum('WordSplitter', P.variant_index('WordSplitter', 'HyphenSplitter'), [])
        return Enum('WordSplitter', P.variant_index('WordSplitter', 'Custom'), [custom_split(sp)])

    def run(self, I, cfg):
        mode = cfg['mode']
        t = self.gen_word(I, cfg)
        S = self.spec
        if mode == 'split_points':
            I.inputs = {'word': t}
            v = I.run('WordSplitter::split_points', [Ptr([self.splitter(I, cfg)], 0), to_str(t)])
            out = list(v.l)
        else:
            nws = I.choose(3, 'nws')
            pen = ['', '-'][I.choose(2, 'pen')]
            # the cached width a real Word carries is its display width (C11); computed by the real MIR
            cw = I.run('display_width', [to_str(t)])
            inp = {'word': t, 'nws': nws, 'pen': pen, 'cw': cw}
            if mode in ('break_apart', 'break_words'):
                inp['limit'] = I.sym_int('L', 0, U64)
            I.inputs = inp
            w, wstr = self.mk_word(I, inp)
            if mode == 'split_words':
                sp = self.splitter(I, cfg)
                it = I.run('split_words', [RVec([w]), Ptr([sp], 0)])
                out = [word_neutral(x) for x in drain(I, it)]
            elif mode == 'break_apart':
                it = I.run('Word::break_apart', [Ptr([w], 0), inp['limit']])
                out = [word_neutral(x) for x in drain(I, it)]
            else:
                v = I.run('break_words', [RVec([w]), inp['limit']])
                out = [word_neutral(x) for x in v.l]
        self.oracle(I, cfg, I.inputs, out)
        return out

    def native(self, nat, cfg, inp):
        mode = cfg['mode']
        if mode == 'split_points':
            st, r = nat.call('split_points %s %s' % (cfg['split'], N.hexs(inp['word'])))
            if st != 'OK':
                return st, r
            return 'OK', [int(x) for x in r.split()[1:]]
        w = N.words_token([{'word': inp['word'], 'ws': ' ' * inp['nws'], 'pen': inp['pen'], 'width': inp['cw']}])
        if mode == 'split_words':
            st, r = nat.call('split_words %s %s' % (cfg['split'], w))
        elif mode == 'break_apart':
            st, r = nat.call('break_apart %s %d' % (w, inp['limit']))
        else:
            st, r = nat.call('break_words %s %d' % (w, inp['limit']))
        if st != 'OK':
            return st, r
        return 'OK', [{'word': T(x['word']), 'ws': T(x['ws']), 'pen': T(x['pen']), 'width': x['width']}
                      for x in N.parse_words(r)]

    # ------------------------------------------------------------------ oracles
    def alnum(self, I, cp):
        al = self.tables
        if is_sym(cp):
            lo, hi = I.cp_range.get(cp.get_id(), (0, 0x10FFFF))
            return al.pred('alphanumeric', 1, cp, lo, hi)
        return al.lookup('alphanumeric', cp) == 1

    def spec_points(self, I, cfg, chars):
        """split points of the configured splitter as {byte offset: condition}"""
        sp = cfg['split']
        offs = [0]
        for _, nb in chars:
            offs.append(offs[-1] + nb)
        pts = {}
        if sp == 'H':
            for i in range(1, len(chars) - 1):
                pts[offs[i + 1]] = v_and(v_eq(chars[i][0], ord('-')) if chars[i][1] == 1 else False,
                                         self.alnum(I, chars[i - 1][0]), self.alnum(I, chars[i + 1][0]))
        elif sp == 'C1':
            for i in range(1, len(chars)):
                pts[offs[i]] = True
        elif sp == 'C2':
            if len(chars) > 1:
                pts[offs[1]] = True
        elif sp == 'C3':
            if len(chars) > 1:
                pts[offs[len(chars) - 1]] = True
        return pts, offs

    def oracle(self, I, cfg, inp, out):
        mode = cfg['mode']
        S = self.spec
        word = inp['word'].chars
        if mode == 'split_points':
            pts, offs = self.spec_points(I, cfg, word)
            for o in offs[1:-1] + [offs[-1]]:
                c = pts.get(o, False)
                got = o in out
                I.check(c if got else v_not(c), 'hyphen-split-points',
                        'offset %d %s reported but the rule (after a hyphen with alphanumerics on both sides) says %s'
                        % (o, 'is' if got else 'is not', 'no' if got else 'yes'))
            I.check(out == sorted(set(out)) and all(0 < o <= offs[-1] for o in out), 'points-increasing-in-range',
                    'split points %r are not strictly increasing offsets inside the word' % (out,))
            return
        pieces = out
        cat = []
        for p in pieces:
            cat += p['word'].chars
        if not I.check(seq_eq(cat, word), 'lossless', 'pieces do not concatenate to the word'):
            return
        ws = [(32, 1)] * inp['nws']
        pen = T(inp['pen']).chars
        if mode == 'split_words':
            pts, offs = self.spec_points(I, cfg, word)
            cuts = []
            pos = 0
            for p in pieces[:-1]:
                pos += p['word'].blen()
                cuts.append(pos)
            for o in offs[1:-1]:
                c = pts.get(o, False)
                got = o in cuts
                I.check(c if got else v_not(c), 'cut-at-split-points',
                        'word %s cut at offset %d but the splitter %s a split point there' %
                        ('is' if got else 'is not', o, 'has no' if got else 'has'))
            I.check(len(pieces) >= 1, 'at-least-one-piece', 'no piece produced')
            for k, p in enumerate(pieces):
                last = k == len(pieces) - 1
                if last:
                    I.check(seq_eq(p['ws'].chars, ws) is not False and seq_eq(p['pen'].chars, pen) is not False and
                            I.branch(v_and(seq_eq(p['ws'].chars, ws), seq_eq(p['pen'].chars, pen))),
                            'last-piece-keeps-whitespace-and-penalty', 'last piece lost the whitespace / penalty')
                else:
                    I.check(len(p['ws'].chars) == 0, 'inner-piece-no-whitespace', 'inner piece %d has whitespace' % k)
                    ends_hyphen = v_eq(p['word'].chars[-1][0], ord('-')) if p['word'].chars and p['word'].chars[-1][1] == 1 else False
                    has_pen = len(p['pen'].chars) > 0
                    I.check(v_not(ends_hyphen) if has_pen else ends_hyphen, 'hyphen-penalty-rule',
                            'piece %d %s a hyphen penalty but %s in "-"' % (k, 'has' if has_pen else 'lacks',
                                                                             'ends' if has_pen else 'does not end'))
                    if has_pen:
                        I.check(seq_eq(p['pen'].chars, [(45, 1)]), 'hyphen-penalty-rule', 'penalty is not "-"')
                I.check(v_eq(p['width'], S.display_width(I, p['word'].chars)), 'cached-width',
                        'cached width of piece %d is wrong' % k)
            return
        L = inp['limit']
        cw = inp['cw']
        if mode == 'break_words':
            if I.branch(v_le(cw, L)):
                I.check(len(pieces) == 1 and seq_eq(pieces[0]['ws'].chars, ws) is not False and
                        seq_eq(pieces[0]['pen'].chars, pen) is not False and pieces[0]['width'] is cw or
                        (len(pieces) == 1 and I.branch(v_eq(pieces[0]['width'], cw))),
                        'narrow-word-unchanged', 'a word not wider than the limit was changed')
                return
        # break_apart (also the wide branch of break_words)
        vis_all, mask = S.strip_ansi(I, word, sym_not_esc=True)
        # byte ranges of escape sequences (maximal runs of masked-out chars)
        offs = [0]
        for _, nb in word:
            offs.append(offs[-1] + nb)
        inside = set()
        i = 0
        while i < len(word):
            if not mask[i]:
                j = i
                while j < len(word) and not mask[j]:
                    j += 1
                for k in range(i + 1, j):
                    inside.add(offs[k])
                i = j
            else:
                i += 1
        pos = 0
        for k, p in enumerate(pieces):
            last = k == len(pieces) - 1
            I.check(len(p['word'].chars) > 0, 'piece-non-empty', 'piece %d is empty' % k)
            w = S.display_width(I, p['word'].chars, sym_not_esc=True)
            I.check(v_eq(p['width'], w), 'cached-width', 'cached width of piece %d is wrong' % k)
            vis = S.strip_ansi(I, p['word'].chars, sym_not_esc=True)[0]
            nz = v_sum([v_ite(v_lt(0, S.char_width(I, c)), 1, 0) for c, _ in vis])
            I.check(v_or(v_le(w, L), v_le(nz, 1)), 'piece-within-limit',
                    'piece %d is wider than the limit and has more than one non-zero-width character' % k)
            if not last:
                I.check(len(p['ws'].chars) == 0 and len(p['pen'].chars) == 0, 'inner-piece-no-whitespace',
                        'inner piece %d carries whitespace/penalty' % k)
                nxt = pieces[k + 1]['word'].chars
                if nxt:
                    I.check(v_lt(L, v_add(w, S.char_width(I, nxt[0][0]))), 'piece-maximal',
                            'the first character of piece %d would still have fitted on piece %d' % (k + 1, k))
                pos += p['word'].blen()
                I.check(pos not in inside, 'no-cut-inside-escape', 'cut at byte %d lies inside an escape sequence' % pos)
            else:
                I.check(I.branch(v_and(seq_eq(p['ws'].chars, ws), seq_eq(p['pen'].chars, pen))),
                        'last-piece-keeps-whitespace-and-penalty', 'last piece lost the whitespace / penalty')

    def shape(self, cfg, inputs, clause):
        return '%s/%s' % (cfg['mode'], clause)


HARNESS = C12()
