"""C11 — word finding is lossless and breaks exactly at the specified opportunities."""
import z3
from harness import *
from wrapbase import seq_eq

ALPHA = [' ', 'a', '-', '­', '\t', ' ', '​', '⁠', '你', '\U0001f602', '\n', '\r', '́', ')', '\x1b[m',
         '\x1b]8;;\x1b\\']

# characters whose UTF-8 encoding shares bytes with characters the code treats specially (last byte 0xAD like the
# soft hyphen C2 AD, last byte 0xA0 like NBSP, ...): byte-vs-char slips
COLLIDE = ['\u4e2d', '\u00ed', '\U0001f62d', '\u6587', '\u0b6d']


def words_neutral(vec, base):
    out = []
    for w in vec.l:
        word, ws, pen, width = w.f
        out.append({'off': word.s if word.b is base.b else -1, 'word': Txt(word.chars()), 'ws': Txt(ws.chars()),
                    'pen': Txt(pen.chars()), 'width': width})
    return out


class C11(Harness):
    prop = 'C11'
    features = ('full', 'nd')
    validate_every = 5

    def spaces(self, tier, seed):
        q = tier == 'quick'
        out = []
        for feat in ('full', 'nd'):
            out.append({'feat': feat, 'sep': 'A', 'gen': 'sym1', 'n': 4 if q else 6})
            out.append({'feat': feat, 'sep': 'A', 'gen': 'symall', 'n': 3 if q else 4})
        out.append({'feat': 'full', 'sep': 'U', 'gen': 'alpha', 'alphabet': ALPHA[:8] + ALPHA[14:15], 'n': 3 if q else 4})
        out.append({'feat': 'full', 'sep': 'U', 'gen': 'alpha', 'alphabet': ALPHA[:3] + ALPHA[8:], 'n': 3 if q else 4})
        out.append({'feat': 'full', 'sep': 'U', 'gen': 'alpha', 'alphabet': [' ', 'a', '-', '­'] + COLLIDE, 'n': 3 if q else 4})
        # paragraph-sized lines: symbolic positions (ASCII separator), alphabet positions (Unicode separator)
        LT = ['The qu?ck brown-f?x  jumps ?ver', '\x1b[31mre?\x1b[0m gr?en \x1b]8;;u\x07l?nk\x1b]8;;\x07 x',
              'x? \u4f60\u597d?\u4e16\u754c ab\u0301c ?z', ' ?a  b? ']
        for t in LT:
            for feat in ('full', 'nd'):
                out.append({'feat': feat, 'sep': 'A', 'gen': 'tmpl', 'tmpl': t})
            out.append({'feat': 'full', 'sep': 'U', 'gen': 'atmpl', 'tmpl': t, 'alphabet': ALPHA[:8] if q else ALPHA})
        if not q:
            out.append({'feat': 'full', 'sep': 'U', 'gen': 'alpha', 'alphabet': [' ', 'a', '-', '­', '你', '\x1b[m'], 'n': 6})
            out.append({'feat': 'full', 'sep': 'U', 'gen': 'alpha', 'alphabet': ALPHA, 'n': 4})
        return out

    def bounds_text(self, tier):
        q = tier == 'quick'
        return ('ASCII separator: lines of <= %d fully symbolic 1-byte characters and <= %d characters of any UTF-8 '
                'class; Unicode separator: lines of <= %d tokens over the alphabet %r (UAX#14 opportunities are computed '
                'by the real unicode-linebreak crate natively on the then-concrete stripped line)'
                % (4 if q else 6, 3 if q else 4, 3 if q else 6, ALPHA))

    def run(self, I, cfg):
        if cfg['gen'] == 'tmpl':
            line = gen_tmpl(I, cfg['tmpl'], exclude=())
        elif cfg['gen'] == 'atmpl':
            # template whose '?' positions fork over a stated alphabet (the text is concrete on every path, as the
            # Unicode separator needs)
            chars = []
            for ch in cfg['tmpl']:
                tok = cfg['alphabet'][I.choose(len(cfg['alphabet']), 'alpha')] if ch == '?' else ch
                chars.extend((ord(c), utf8len(ord(c))) for c in tok)
            line = Txt(chars)
        elif cfg['gen'] == 'alpha':
            line = gen_alpha(I, cfg['n'], cfg['alphabet'], lenvar=True)
        else:
            line = gen_text(I, cfg['n'], 'c', (1,) if cfg['gen'] == 'sym1' else (1, 2, 3, 4), lenvar=True)
        I.inputs = {'line': line}
        s = to_str(line)
        fn = 'find_words_ascii_space' if cfg['sep'] == 'A' else 'find_words_unicode_break_properties'
        it = I.run(fn, [s])
        vec = RVec()
        while True:
            r = I.iter_next(it)
            if r.v == 0:
                break
            vec.l.append(r.f[0])
        out = words_neutral(vec, s)
        self.oracle(I, cfg, I.inputs, out)
        return out

    def native(self, nat, cfg, inp):
        st, r = nat.call('find_words %s %s' % (cfg['sep'], N.hexs(inp['line'])))
        if st != 'OK':
            return st, r
        return 'OK', [{'off': w['off'], 'word': T(w['word']), 'ws': T(w['ws']), 'pen': T(w['pen']), 'width': w['width']}
                      for w in N.parse_words(r)]

    def oracle(self, I, cfg, inp, words):
        S = self.spec
        line = inp['line'].chars
        # lossless: concatenation of word + whitespace reproduces the line
        cat = []
        for w in words:
            cat += w['word'].chars + w['ws'].chars
        if not I.check(seq_eq(cat, line), 'lossless', 'word+whitespace concatenation differs from the line'):
            return
        bounds = []
        pos = 0
        for k, w in enumerate(words):
            I.check(v_and(*[v_eq(c, 32) for c, _ in w['ws'].chars]), 'whitespace-only-spaces',
                    'whitespace part of word %d contains a non-space' % k)
            if w['word'].chars:
                I.check(v_ne(w['word'].chars[-1][0], 32), 'word-ends-in-space', 'word %d ends in a space' % k)
            I.check(len(w['pen'].chars) == 0, 'penalty-empty', 'word %d has a penalty' % k)
            I.check(v_eq(w['width'], S.display_width(I, w['word'].chars)), 'cached-width',
                    'cached width of word %d differs from its display width' % k)
            pos += len(w['word'].chars) + len(w['ws'].chars)
            if k + 1 < len(words):
                bounds.append(pos)
        # boundaries (as character indices into the line)
        if cfg['sep'] == 'A':
            for i in range(1, len(line)):
                spec = v_and(v_eq(line[i - 1][0], 32), v_ne(line[i][0], 32))
                got = i in bounds
                I.check(spec if got else v_not(spec), 'ascii-boundaries',
                        'position %d %s a word boundary but space-followed-by-non-space is %s' %
                        (i, 'is' if got else 'is not', 'false' if got else 'true'))
        else:
            if any(is_sym(c) for c, _ in line):
                raise Unsupported('unicode separator oracle needs concrete text')
            kept, mask = S.strip_ansi(I, line)
            stripped = ''.join(chr(c) for c, _ in kept)
            st, r = I.native.call('linebreaks ' + N.hexs(stripped))
            if st != 'OK':
                raise Unsupported('native linebreaks failed')
            sb = stripped.encode()
            ops = [int(e.split(':')[0]) for e in r.split()]
            ops = [o for o in ops if o < len(sb) and sb[:o].decode()[-1:] not in ('-', '­')]
            # map stripped byte offsets back to character indices of the original line: the boundary is placed
            # before the first original character (escape sequences included) whose stripped offset equals o
            expect = []
            soff = 0
            smap = []       # per original char index: stripped byte offset at that char
            for i, (c, nb) in enumerate(line):
                smap.append(soff)
                if mask[i]:
                    soff += nb
            for o in ops:
                cand = [i for i in range(len(line)) if smap[i] == o]
                # never inside an escape sequence: the boundary is at the first such index that starts a kept
                # char or an escape sequence (i.e. the previous char, if any, has a smaller offset or is kept)
                if cand:
                    expect.append(cand[0])
            I.check(sorted(set(expect)) == bounds, 'unicode-boundaries',
                    'word boundaries %r differ from the UAX#14 opportunities %r (minus those after - / SHY)' %
                    (bounds, sorted(set(expect))))

    def shape(self, cfg, inputs, clause):
        if clause == 'unicode-boundaries' and inputs['line'][-1:] in ('-', '­'):
            return clause + '/line-ends-in-hyphen'
        return clause


HARNESS = C11()
