"""C04 — public functions are total: no panic, hang or overflow error on any input.

Every entry point is executed on adversarial symbolic input; a panic (MIR assert, failed unwrap/expect, slice or
char-boundary error, RefCell double borrow, `unreachable`) on any path is a violation, and so is an
Err(OverflowError) from optimal-fit on usize-valued input.  Termination: the interpreter's block budget turns a
non-terminating path into INCONCLUSIVE.
"""
import z3
from harness import *
from wrapbase import *
from fragbase import *
from c12 import drain

ADV = ['\x1b', '[', ']', 'm', '\x07', '\\', ' ', 'a', '-', '\r', '\n', ' ', '​', '­', '́', '\U0001f602', 'Ｈ', '\t']
U64MAX = (1 << 64) - 1


class C04(FragHarness, WrapHarness):
    prop = 'C04'
    features = ('full', 'nd')
    validate_every = 6
    panic_policy = 'violation'

    def spaces(self, tier, seed):
        q = tier == 'quick'
        out = []
        n1 = 3 if q else 4
        for feat in ('full', 'nd'):
            algos = ('F', 'O') if feat == 'full' else ('F',)
            for algo in algos:
                for split in ('N', 'H', 'C1'):
                    for bw in (True, False):
                        if q and ((feat == 'nd' and (split == 'C1' or not bw)) or (algo == 'O' and (split != 'H' or not bw))):
                            continue
                        out.append({'entry': 'wrap', 'feat': feat, 'algo': algo, 'sep': 'A', 'split': split, 'bw': bw,
                                    'gen': 'sym1', 'n': n1, 'ind': 'both', 'imax': 1, 'le': 'CRLF' if bw else 'LF'})
            out.append({'entry': 'fill', 'feat': feat, 'algo': 'F', 'sep': 'A', 'split': 'H', 'bw': True, 'gen': 'symall',
                        'n': 2 if q else 3, 'ind': 'ii', 'imax': 1, 'icl': (1, 3)})
            out.append({'entry': 'fill_inplace', 'feat': feat, 'gen': 'sym1', 'n': 4 if q else 5})
            out.append({'entry': 'fill_inplace', 'feat': feat, 'gen': 'symall', 'n': 2 if q else 3})
            out.append({'entry': 'fill_inplace', 'feat': feat, 'gen': 'alpha', 'alphabet': ['\r', '\n', ' ', 'a', '\u00e9'],
                        'n': 5 if q else 6})
            out.append({'entry': 'unfill', 'feat': feat, 'gen': 'sym1', 'n': 4 if q else 5})
            out.append({'entry': 'unfill', 'feat': feat, 'gen': 'symall', 'n': 3})
            out.append({'entry': 'refill', 'feat': feat, 'gen': 'sym1', 'n': 3 if q else 4, 'algo': 'F', 'sep': 'A',
                        'split': 'H', 'bw': True, 'le': 'CRLF'})
            out.append({'entry': 'indent', 'feat': feat, 'gen': 'sym1', 'n': 3 if q else 4})
            out.append({'entry': 'dedent', 'feat': feat, 'gen': 'sym1', 'n': 4 if q else 5})
            out.append({'entry': 'dedent', 'feat': feat, 'gen': 'symall', 'n': 3})
            out.append({'entry': 'dedent', 'feat': feat, 'gen': 'symcls', 'classes': (1, 2), 'n': 5})
            if feat == 'full':
                out.append({'entry': 'dedent', 'feat': feat, 'gen': 'symcls', 'classes': (1, 3), 'n': 5})
                out.append({'entry': 'unfill', 'feat': feat, 'gen': 'symcls', 'classes': (1, 3), 'n': 4})
                out.append({'entry': 'indent', 'feat': feat, 'gen': 'symcls', 'classes': (1, 2), 'n': 4})
            out.append({'entry': 'display_width', 'feat': feat, 'gen': 'symall', 'n': 4 if q else 5})
            out.append({'entry': 'words', 'feat': feat, 'sep': 'A', 'split': 'H', 'gen': 'sym1', 'n': 4 if q else 5})
            out.append({'entry': 'words', 'feat': feat, 'sep': 'A', 'split': 'C1', 'gen': 'symall', 'n': 2 if q else 3})
            out.append({'entry': 'wrap_columns', 'feat': feat, 'algo': 'F', 'sep': 'A', 'split': 'H', 'bw': True, 'cols': 2,
                        'gen': 'sym1', 'n': 2 if q else 3, 'wmax': 6})
        # Unicode separator + adversarial alphabet (ESC fragments, CR/LF, NBSP, ZWSP, SHY, combining, emoji, wide)
        for algo in ('F', 'O'):
            for bw in (True, False):
                if q and algo == 'O' and not bw:
                    continue
                out.append({'entry': 'wrap', 'feat': 'full', 'algo': algo, 'sep': 'U', 'split': 'H', 'bw': bw, 'gen': 'alpha',
                            'alphabet': ADV[:9] if q else ADV, 'n': 3, 'ind': 'si' if not q else 'none', 'imax': 1,
                            'wmax': 1 << 20})
        out.append({'entry': 'words', 'feat': 'full', 'sep': 'U', 'split': 'H', 'gen': 'alpha', 'alphabet': ADV, 'n': 3})
        out.append({'entry': 'refill', 'feat': 'full', 'gen': 'alpha', 'alphabet': ['a', ' ', '\n', '\r', '>', '-', '你'],
                    'n': 3 if q else 5, 'algo': 'O', 'sep': 'U', 'split': 'H', 'bw': True, 'le': 'LF'})
        out.append({'entry': 'wrap_columns', 'feat': 'full', 'algo': 'O', 'sep': 'U', 'split': 'H', 'bw': False, 'cols': 3,
                    'gen': 'alpha', 'alphabet': [' ', 'a', 'Ｈ', '\n'], 'n': 3, 'wmax': 6})
        # extreme widths with optimal-fit: concrete widths (real IEEE arithmetic in the interpreter), alphabet text
        out.append({'entry': 'wrap', 'feat': 'full', 'algo': 'O', 'sep': 'U', 'split': 'H', 'bw': True, 'gen': 'alpha',
                    'alphabet': [' ', 'a', '-', '\n', '你', '\x1b'], 'n': 3 if q else 4, 'ind': 'none',
                    'wset': [0, 1, 2, (1 << 53) - 1, (1 << 53) + 1, 1 << 63, U64MAX]})
        # sentence templates (paragraph-sized texts with a few symbolic characters), all widths
        tb = {'feat': 'full', 'algo': 'F', 'sep': 'A', 'split': 'H', 'bw': True, 'ind': 'both', 'imax': 1}
        out += std_tmpl_spaces(tb, q, cind=True, entry='wrap')
        out += atmpl_spaces(dict(tb, ind='none') if q else tb, ['short', 'wide'] if q else ['short', 'wide', 'sentence', 'ansi', 'paras'],
                            ADV[:8] if q else ADV, entry='wrap')
        for e in ('fill_inplace', 'unfill', 'dedent', 'indent'):
            out += std_tmpl_spaces({'feat': 'full'}, q, variants=False, entry=e)
        if not q:
            out += tmpl_spaces(dict(tb, algo='O', wmax=1 << 20), ['short', 'longword', 'paras', 'ansi'], entry='wrap')
            out += tmpl_spaces(dict(tb, le='CRLF'), ['sentence', 'paras', 'crlf'], entry='refill')
        out.append({'entry': 'wrap_columns', 'feat': 'full', 'algo': 'F', 'sep': 'A', 'split': 'H', 'bw': True, 'cols': 2,
                    'gen': 'tmpl', 'tmpl': 'ab ?d e', 'tname': 'tiny', 'wmax': 48 if q else 80})
        # line-breaking algorithms on fragments
        for n in range(0, (3 if q else 4) + 1):
            out.append({'entry': 'algo', 'feat': 'full', 'algo': 'F', 'num': 'fpany', 'n': min(n, 2 if q else 3), 'nlw': 1,
                        'float_mode': 'fp'})
            out.append({'entry': 'algo', 'feat': 'full', 'algo': 'O', 'num': 'int', 'n': n, 'nlw': 2 if n < 3 else 1,
                        'B': 1 << 16, 'LB': 1 << 18, 'SB': 1 << 10, 'PB': 1 << 10, 'sympen': n <= 2})
        out.append({'entry': 'algo_extreme', 'feat': 'full', 'n': 2 if q else 3, 'full': not q})
        return out

    def bounds_text(self, tier):
        return ('every public entry point (wrap, fill, fill_inplace, unfill, refill, indent, dedent, wrap_columns with '
                '1..3 columns, display_width, find_words/split_words/break_words/break_apart, wrap_first_fit, '
                'wrap_optimal_fit) on <= 2-5 symbolic characters (1-byte class fully symbolic incl. ESC fragments, CR, LF; '
                'all UTF-8 classes at <= 2-3), the Unicode separator over the adversarial alphabet %r, every width '
                '0..2^64-1 for first-fit paths, 0..2^20 plus the concrete extremes {0,1,2,2^53-1,2^53+1,2^63,2^64-1} for '
                'optimal-fit, symbolic indents, symbolic penalties <= 2^12; fragments: first-fit with arbitrary f64 incl. '
                'inf/NaN (FP theory, n <= 2-3), optimal-fit with symbolic integers, and corner-value fragments/penalties in '
                '{0,1,2^32,2^53,2^64-1} executed with concrete IEEE arithmetic (OverflowError check)' % (ADV,))

    # ------------------------------------------------------------------
    def run(self, I, cfg):
        e = cfg['entry']
        out = 'ok'
        if e in ('wrap', 'fill', 'refill', 'wrap_columns'):
            inp = self.gen(I, dict(cfg, ind=cfg.get('ind', 'none')))
            if 'wset' in cfg:
                inp['W'] = cfg['wset'][I.choose(len(cfg['wset']), 'wset')]
            I.inputs = inp
            if e == 'wrap':
                self.run_wrap(I, cfg, inp)
            elif e == 'fill':
                self.run_fill(I, cfg, inp)
            elif e == 'refill':
                I.run('refill', [to_str(inp['text']), self.options(I, cfg, inp)])
            else:
                I.int_enum_limit = cfg['wmax'] + 2
                I.run('wrap_columns', [to_str(inp['text']), cfg['cols'], self.options(I, cfg, inp), mkstr('|'),
                                       mkstr(' '), mkstr('')])
            return out
        if e in ('algo', 'algo_extreme'):
            return self.run_algos(I, cfg)
        text = self.gen_text(I, cfg)
        inp = {'text': text}
        if e == 'fill_inplace':
            inp['W'] = I.sym_int('W', 0, U64)
            I.inputs = inp
            box = [OString(text.chars)]
            I.run('fill_inplace', [Ptr(box, 0), inp['W']])
        elif e == 'unfill':
            I.inputs = inp
            I.run('unfill', [to_str(text)])
        elif e == 'indent':
            p = gen_text(I, 1, 'p', (1,), lenvar=True)
            inp['p'] = p
            I.inputs = inp
            I.run('indent', [to_str(text), to_str(p, 'prefix')])
        elif e == 'dedent':
            I.inputs = inp
            I.run('dedent', [to_str(text)])
        elif e == 'display_width':
            I.inputs = inp
            I.run('display_width', [to_str(text)])
        elif e == 'words':
            inp['L'] = I.sym_int('L', 0, U64)
            I.inputs = inp
            P = I.prog
            sep = Enum('WordSeparator', P.variant_index('WordSeparator', 'AsciiSpace' if cfg['sep'] == 'A' else
                                                        'UnicodeBreakProperties'), [])
            words = I.run('WordSeparator::find_words', [Ptr([sep], 0), to_str(text)])
            if cfg['split'] == 'H':
                sp = Enum('WordSplitter', P.variant_index('WordSplitter', 'HyphenSplitter'), [])
            else:
                sp = Enum('WordSplitter', P.variant_index('WordSplitter', 'Custom'), [custom_split(cfg['split'])])
            sw = I.run('split_words', [words, Ptr([sp], 0)])
            v = I.run('break_words', [sw, inp['L']])
            for w in v.l[:2]:
                drain(I, I.run('Word::break_apart', [Ptr([w], 0), inp['L']]))
        return out

    def run_algos(self, I, cfg):
        if cfg['entry'] == 'algo_extreme':
            vals = [0, 1, 1 << 32, 1 << 53, U64MAX] if cfg['n'] <= 2 and cfg.get('full') else [0, 1 << 32, U64MAX]
            n = cfg['n']
            fr = [[float(vals[I.choose(len(vals), 'w')]), float([0, 1, U64MAX][I.choose(3, 's')]),
                   float([0, 1][I.choose(2, 'p')])] for _ in range(n)]
            lws = [float(vals[I.choose(len(vals), 'L')])]
            pen = [[0, 1000, U64MAX][I.choose(3, 'pn')], [0, 2500, U64MAX][I.choose(3, 'po')], [0, 4, U64MAX][I.choose(3, 'pf')],
                   [25, U64MAX][I.choose(2, 'ps')], [25, U64MAX][I.choose(2, 'ph')]]
            inp = {'frags': fr, 'lws': lws, 'pen': pen}
            I.inputs = inp
            frags = [mkF(*f) for f in fr]
            res = I.run('wrap_optimal_fit', [Slice(frags, 0, n), Slice(list(lws), 0, 1), Ptr([Agg('Penalties', pen)], 0)])
            I.check(res.v == 0, 'overflow-error-on-usize-input', 'wrap_optimal_fit returned OverflowError for usize-valued input')
            I.run('wrap_first_fit', [Slice(frags, 0, n), Slice(list(lws), 0, 1)])
            return 'ok' if res.v == 0 else 'ERR'
        if cfg.get('num') == 'fpany':
            n = cfg['n']
            fr = [[z3.FP('%s%d' % (nm, i), z3.Float64()) for nm in 'wsp'] for i in range(n)]
            lws = [z3.FP('L0', z3.Float64())]
            inp = {'frags': fr, 'lws': lws}
            I.inputs = inp
            frags = [mkF(*[SymFP(v) for v in f]) for f in fr]
            I.run('wrap_first_fit', [Slice(frags, 0, n), Slice([SymFP(lws[0])], 0, 1)])
            return 'ok'
        inp = self.gen_frags(I, cfg)
        if cfg.get('sympen'):
            pen = [I.sym_int('pen%d' % k, 0, 1 << 12) for k in range(5)]
            pen[2] = I.enumerate_int(pen[2], 'short_last_line_fraction', 2)
            inp['pen'] = pen
        I.inputs = inp
        cuts = self.run_algo(I, cfg, inp)
        I.check(cuts != 'ERR', 'overflow-error-on-usize-input', 'wrap_optimal_fit returned OverflowError for usize-valued input')
        return 'ok'

    def native(self, nat, cfg, inp):
        e = cfg['entry']

        def call(line):
            st, r = nat.call(line)
            return (st, r) if st != 'OK' else ('OK', 'ok')
        if e == 'wrap':
            return call('wrap %s %s' % (N.hexs(inp['text']), self.nopts(cfg, inp)))
        if e == 'fill':
            return call('fill %s %s' % (N.hexs(inp['text']), self.nopts(cfg, inp)))
        if e == 'refill':
            return call('refill %s %s' % (N.hexs(inp['text']), self.nopts(cfg, inp)))
        if e == 'wrap_columns':
            return call('wrap_columns %s %d %s %s %s %s' % (N.hexs(inp['text']), cfg['cols'], N.hexs('|'), N.hexs(' '),
                                                            N.hexs(''), self.nopts(cfg, inp)))
        if e == 'fill_inplace':
            return call('fill_inplace %s %d' % (N.hexs(inp['text']), inp['W']))
        if e == 'unfill':
            return call('unfill ' + N.hexs(inp['text']))
        if e == 'indent':
            return call('indent %s %s' % (N.hexs(inp['text']), N.hexs(inp['p'])))
        if e == 'dedent':
            return call('dedent ' + N.hexs(inp['text']))
        if e == 'display_width':
            return call('dw ' + N.hexs(inp['text']))
        if e == 'words':
            st, r = nat.call('find_words %s %s' % (cfg['sep'], N.hexs(inp['text'])))
            if st != 'OK':
                return st, r
            ws = N.parse_words(r)
            st, r = nat.call('split_words %s %s' % (cfg['split'], N.words_token(ws)))
            if st != 'OK':
                return st, r
            ws = N.parse_words(r)
            st, r = nat.call('break_words %s %d' % (N.words_token(ws), inp['L']))
            if st != 'OK':
                return st, r
            for w in N.parse_words(r)[:2]:
                st, r2 = nat.call('break_apart %s %d' % (N.words_token([w]), inp['L']))
                if st != 'OK':
                    return st, r2
            return 'OK', 'ok'
        if e == 'algo_extreme':
            fr = N.frags_token(inp['frags'])
            lw = ','.join(N.f64_token(x) for x in inp['lws'])
            st, r = nat.call('optimal_fit %s %s %s' % (fr, lw, ':'.join(str(x) for x in inp['pen'])))
            if st != 'OK':
                return st, r
            st2, r2 = nat.call('first_fit %s %s' % (fr, lw))
            if st2 != 'OK':
                return st2, r2
            return 'OK', 'ERR' if r == 'ERR' else 'ok'
        if cfg.get('num') == 'fpany':
            fr = N.frags_token(inp['frags'])
            lw = ','.join(N.f64_token(x) for x in inp['lws'])
            return call('first_fit %s %s' % (fr, lw))
        st, r = FragHarness.native(self, nat, cfg, inp)
        return (st, r) if st != 'OK' else ('OK', 'ok')

    def decode(self, cfg, inputs):
        return inputs

    def oracle(self, I, cfg, inp, out):
        I.check(out != 'ERR', 'overflow-error-on-usize-input', 'wrap_optimal_fit returned OverflowError')

    def shape(self, cfg, inputs, clause):
        return '%s/%s' % (cfg['entry'], clause)


HARNESS = C04()
