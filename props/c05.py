"""C05 — text that already fits is returned unchanged; the shortcut path is unobservable."""
import z3
from harness import *
from wrapbase import *

TOK = ['\x1b[m']


class C05(WrapHarness):
    prop = 'C05'
    validate_every = 7

    def spaces(self, tier, seed):
        q = tier == 'quick'
        out = []
        for g in self.option_grid(tier):
            if q and ((g['split'] == 'C1' and g['feat'] == 'nd') or (g['algo'] == 'O' and g['split'] != 'H')):
                continue
            c = dict(g, mode='paths')
            if g['sep'] == 'A':
                c.update(gen='sym1' if q else 'symall', n=3)
            else:
                c.update(gen='alpha', alphabet=[' ', 'a', '-', '你', '\x1b[m', '́'], n=3 if q else 4)
            out.append(c)
            c2 = dict(c, mode='fits')
            if g['split'].startswith('C'):
                # the 'fits' clause is stated for splitters that insert no hyphens: an injected splitter that cuts
                # before a zero-width character or inside an escape sequence makes piece widths + hyphen exceed the
                # paragraph's own width (the precondition C03 spells out); the path-equivalence clause keeps it
                continue
            out.append(c2)
        base = {'feat': 'full', 'algo': 'O', 'sep': 'A', 'split': 'H', 'bw': True}
        out.append(dict(base, mode='paths', gen='sym1', n=3 if q else 5))
        out.append(dict(base, mode='paths', gen='symall', n=3, algo='F'))
        out.append(dict(base, mode='fits', gen='sym1', n=2 if q else 4, ind='both', imax=1))
        out.append(dict(base, mode='fits', gen='sym1', n=3 if q else 4, ind='both', imax=1, algo='F'))
        out.append(dict(base, mode='fits', gen='symall', n=2 if q else 3, ind='si', imax=1, icl=(1, 3), algo='F'))
        out.append(dict(base, mode='fill', gen='sym1', n=3 if q else 4))
        out.append(dict(base, mode='fill', gen='sym1', n=2 if q else 3, algo='F', ind='both', imax=1))
        out.append(dict(base, mode='fill', gen='sym1', n=3 if q else 4, algo='F', ind='ii', imax=1, le='CRLF'))
        out.append(dict(base, mode='fill', gen='symall', n=2 if q else 3, algo='F', ind='si', imax=1))
        out.append(dict(base, mode='fill', gen='sym1', n=3 if q else 4, le='CRLF', bw=False))
        out += std_tmpl_spaces(dict(base, algo='F'), q, variants=False, cind=True, mode='paths')
        out += std_tmpl_spaces(dict(base, algo='F'), q, variants=False, cind=True, mode='fill')
        if q:
            out += tmpl_spaces(dict(base, algo='F', ind='si', imax=1), ['hyphens', 'wide'], mode='fits')
        if not q:
            out += std_tmpl_spaces(dict(base, algo='F', ind='both', imax=1), q, variants=False, mode='fits')
            out += tmpl_spaces(dict(base, wmax=1 << 16), ['short', 'longword', 'paras'], mode='paths')
        return out

    def bounds_text(self, tier):
        q = tier == 'quick'
        return ('paragraphs of <= %d characters of any UTF-8 class (<= %d one-byte characters incl. ESC), Unicode separator '
                'over a stated alphabet with an ANSI token and a combining mark, all widths (in particular those between '
                'display width and byte length), full option grid, the line vector empty or already holding one line, '
                'symbolic indents <= 1 character; fill vs fill_slow_path on texts of <= %d characters'
                % (2 if q else 3, 4 if q else 5, 3 if q else 4))

    def run(self, I, cfg):
        mode = cfg['mode']
        inp = self.gen(I, cfg)
        if mode == 'fill':
            I.inputs = inp
            t = to_str(inp['text'])
            a = I.run('fill', [t, self.options(I, cfg, inp)])
            b = I.run('fill_slow_path', [t, self.options(I, cfg, inp)])
            out = {'fast': T(a), 'slow': T(b)}
            self.oracle(I, cfg, inp, out)
            return out
        # a single paragraph: no line-ending characters
        for c, _ in inp['text'].chars:
            if is_sym(c):
                if I.cp_range[c.get_id()][0] == 0:
                    I.add(c != 10)
            elif c == 10:
                raise Infeasible()
        nprev = I.choose(2, 'nprev')
        inp['nprev'] = nprev
        I.inputs = inp
        line = to_str(inp['text'])
        res = {}
        for nm, fn in (('fast', 'wrap_single_line'), ('slow', 'wrap_single_line_slow_path')):
            if mode == 'fits' and nm == 'slow':
                continue
            lines = RVec([Enum('Cow', 0, [mkstr('#')]) for _ in range(nprev)])
            I.run(fn, [line, Ptr([self.options(I, cfg, inp)], 0), Ptr([lines], 0)])
            res[nm] = lines_neutral(RVec(lines.l[nprev:]), line.b)
        self.oracle(I, cfg, inp, res)
        return res

    def native(self, nat, cfg, inp):
        if cfg['mode'] == 'fill':
            out = {}
            for nm, cmd in (('fast', 'fill'), ('slow', 'fill_slow')):
                st, r = nat.call('%s %s %s' % (cmd, N.hexs(inp['text']), self.nopts(cfg, inp)))
                if st != 'OK':
                    return st, r
                out[nm] = T(N.unhex(r))
            return 'OK', out
        out = {}
        for nm, cmd in (('fast', 'wsl'), ('slow', 'wsl_slow')):
            if cfg['mode'] == 'fits' and nm == 'slow':
                continue
            st, r = nat.call('%s %s %d %s' % (cmd, N.hexs(inp['text']), inp['nprev'], self.nopts(cfg, inp)))
            if st != 'OK':
                return st, r
            out[nm] = lines_from_native(r)
        return 'OK', out

    def oracle(self, I, cfg, inp, out):
        S = self.spec
        mode = cfg['mode']
        if mode == 'fill':
            I.check(seq_eq(out['fast'].chars, out['slow'].chars), 'fill-shortcut-unobservable',
                    'fill and fill_slow_path disagree')
            return
        if mode == 'paths':
            a, b = out['fast'], out['slow']
            if not I.check(len(a) == len(b), 'wrap-shortcut-unobservable',
                           'fast path returns %d lines, general path %d' % (len(a), len(b))):
                return
            for k, (x, y) in enumerate(zip(a, b)):
                I.check(seq_eq(x['txt'].chars, y['txt'].chars), 'wrap-shortcut-unobservable',
                        'line %d differs between the shortcut and the general path' % k)
            return
        # fits: display width of the paragraph + indent <= W  =>  exactly [indent + paragraph.trim_end_matches(' ')]
        text = inp['text'].chars
        ind = (inp['ii'] if inp['nprev'] == 0 else inp['si']).chars
        fits = v_le(v_add(S.display_width(I, text), S.display_width(I, ind)), inp['W'])
        if not I.branch(fits):
            return
        trimmed = list(text)
        while trimmed and I.branch(v_eq(trimmed[-1][0], 32)):
            trimmed.pop()
        lines = out['fast']
        if not I.check(len(lines) == 1, 'fitting-paragraph-one-line',
                       'a paragraph that fits was wrapped into %d lines' % len(lines)):
            return
        I.check(seq_eq(lines[0]['txt'].chars, ind + trimmed), 'fitting-paragraph-unchanged',
                'a paragraph that fits is not returned as indent + paragraph without trailing spaces')


    def shape(self, cfg, inputs, clause):
        if clause.startswith('fitting-paragraph') and cfg.get('sep') == 'A':
            t = inputs['text']
            m = esc_mask(t)
            if any(c == ' ' and not k for c, k in zip(t, m)):
                return 'space-inside-escape-sequence/ascii-separator'
        return clause


HARNESS = C05()
