"""C14 — filling is idempotent."""
import z3
from harness import *
from wrapbase import *


class C14(WrapHarness):
    prop = 'C14'
    features = ('full', 'nd')
    validate_every = 7

    def spaces(self, tier, seed):
        q = tier == 'quick'
        out = []
        for feat in ('full', 'nd'):
            for split in ('N', 'H'):
                for bw in (True, False):
                    for le in ('LF', 'CRLF'):
                        if q and feat == 'nd' and (le == 'CRLF' or split == 'N'):
                            continue
                        out.append({'feat': feat, 'algo': 'F', 'sep': 'A', 'split': split, 'bw': bw, 'le': le,
                                    'gen': 'sym1', 'n': 3 if q else 4})
        out.append({'feat': 'full', 'algo': 'F', 'sep': 'A', 'split': 'H', 'bw': True, 'le': 'LF', 'gen': 'symall', 'n': 3})
        out.append({'feat': 'full', 'algo': 'F', 'sep': 'A', 'split': 'N', 'bw': False, 'le': 'LF', 'gen': 'sym1',
                    'n': 4 if q else 5})
        # structured multi-word texts with runs of spaces (beyond the flat N bound)
        for algo in ('F', 'O'):
            out.append({'feat': 'full', 'algo': algo, 'sep': 'A', 'split': 'H', 'bw': True, 'le': 'LF', 'gen': 'words',
                        'nwords': 3, 'wl': 1 if q else 2, 'maxgap': 2, 'trail': True, 'wmax': 1 << 16})
        # (the property is stated for empty indents: no indent variants here)
        tb = {'feat': 'full', 'algo': 'F', 'sep': 'A', 'split': 'H', 'bw': True, 'le': 'LF'}
        out += std_tmpl_spaces(tb, q, variants=False)
        # width measured twice: once by break_apart (per character), once by Word::from on the second pass
        out += tmpl_spaces(tb, ['lastpiece'], variant=0)      # positions fixed for every VERIF_SEED
        if not q:
            out += tmpl_spaces(dict(tb, bw=False), ['sentence', 'paras', 'hyphens', 'wide'])
            out += tmpl_spaces(dict(tb, le='CRLF'), ['paras', 'crlf'])
        out += atmpl_spaces({'feat': 'full', 'algo': 'F', 'split': 'H', 'bw': False, 'le': 'LF'},
                            ['short', 'wide'] if q else ['short', 'wide', 'sentence', 'paras'], [' ', 'a', '-', '你', '\n', ')'])
        # Unicode separator: no force-breaking (break_words off)
        for split in ('N', 'H'):
            out.append({'feat': 'full', 'algo': 'F', 'sep': 'U', 'split': split, 'bw': False, 'le': 'LF', 'gen': 'alpha',
                        'alphabet': [' ', 'a', '-', '你', '\n', ')'], 'n': 4 if q else 5})
        # optimal-fit: whenever no line of the first result overflows
        for sep in ('A', 'U'):
            c = {'feat': 'full', 'algo': 'O', 'sep': sep, 'split': 'H', 'bw': True, 'le': 'LF', 'wmax': 1 << 16}
            if sep == 'A':
                c.update(gen='sym1x', tokens=(), n=3 if q else 4)
            else:
                c.update(gen='alpha', alphabet=[' ', 'a', '-', '你', '\n'], n=4 if q else 5)
            out.append(c)
        return out

    def bounds_text(self, tier):
        q = tier == 'quick'
        return ('texts of <= %d symbolic 1-byte characters (<= 3 of any UTF-8 class), Unicode separator over a stated '
                'alphabet with break_words off, empty indents, all widths; optimal-fit under the precondition that no line '
                'of the first result is wider than the width' % (4 if q else 5))

    def run(self, I, cfg):
        inp = self.gen(I, cfg)
        I.inputs = inp
        f1 = self.run_fill(I, cfg, inp)
        f2 = self.run_fill(I, cfg, inp, text=f1)
        out = {'f1': f1, 'f2': f2}
        self.oracle(I, cfg, inp, out)
        return out

    def native(self, nat, cfg, inp):
        st, a = self.native_fill(nat, cfg, inp)
        if st != 'OK':
            return st, a
        st, b = self.native_fill(nat, cfg, inp, text=a.py())
        if st != 'OK':
            return st, b
        return 'OK', {'f1': a, 'f2': b}

    def oracle(self, I, cfg, inp, out):
        S = self.spec
        if cfg['algo'] == 'O':
            le = [13, 10] if cfg.get('le') == 'CRLF' else [10]
            cs = out['f1'].chars
            lines, cur, i = [], [], 0
            while i < len(cs):
                if i + len(le) <= len(cs) and all(I.branch(v_eq(cs[i + t][0], le[t])) for t in range(len(le))):
                    lines.append(cur)
                    cur = []
                    i += len(le)
                else:
                    cur.append(cs[i])
                    i += 1
            lines.append(cur)
            for l in lines:
                if not I.branch(v_le(S.display_width(I, l), inp['W'])):
                    return        # precondition of the optimal-fit clause not met
        I.check(seq_eq(out['f2'].chars, out['f1'].chars), 'fill-idempotent', 'fill(fill(t, o), o) != fill(t, o)')


HARNESS = C14()
