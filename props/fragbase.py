"""Abstract-fragment harness base for the two line-breaking algorithms (C03, C06, C07)."""
import itertools
import z3
from harness import *

DEFAULT_PEN = (1000, 2500, 4, 25, 25)


def mkF(w, ws, p):
    return Agg('F', [w, ws, p])


class FragHarness(Harness):
    features = ('full',)

    def gen_frags(self, I, cfg):
        """n fragments; mode 'int': symbolic integer widths (exact f64 encoding); 'fp': arbitrary finite f64"""
        n = cfg['n']
        mode = cfg.get('num', 'int')
        B = cfg.get('B', 1 << 10)
        fr = []
        if mode == 'int':
            for i in range(n):
                w = I.sym_int('w%d' % i, 0, B)
                s = I.sym_int('s%d' % i, 0, cfg.get('SB', 3))
                p = I.sym_int('p%d' % i, 0, cfg.get('PB', 1))
                fr.append((w, s, p))
            if cfg.get('pen_le_next', False):
                for i in range(n - 1):
                    I.add(fr[i][2] <= fr[i + 1][0])
        else:
            for i in range(n):
                t = []
                for nm in 'wsp':
                    v = z3.FP('%s%d' % (nm, i), z3.Float64())
                    I.add(z3.Not(z3.fpIsNaN(v)))
                    I.add(z3.Not(z3.fpIsInf(v)))
                    t.append(v)
                fr.append(tuple(t))
        nl = cfg.get('nlw', 1)
        lws = []
        for k in range(nl):
            if mode == 'int':
                lws.append(I.sym_int('L%d' % k, cfg.get('lwmin', 0), cfg.get('LB', 4 * B)))
            else:
                v = z3.FP('L%d' % k, z3.Float64())
                I.add(z3.Not(z3.fpIsNaN(v)))
                I.add(z3.Not(z3.fpIsInf(v)))
                lws.append(v)
        return {'frags': [list(f) for f in fr], 'lws': lws}

    def to_interp(self, I, cfg, inp):
        mode = cfg.get('num', 'int')
        wrapv = (lambda v: SymF(v) if is_sym(v) else SymF(z3.IntVal(v))) if mode == 'int' else \
            (lambda v: SymFP(v) if is_sym(v) else SymFP(z3.FPVal(v, z3.Float64())))
        frags = [mkF(wrapv(w), wrapv(s), wrapv(p)) for w, s, p in inp['frags']]
        lws = [wrapv(v) for v in inp['lws']]
        return frags, lws

    def cuts_of(self, res, frags):
        out = []
        for sl in res.l:
            if sl.a == sl.b:
                out.append([0, 0, True])     # an empty slice has no position / identity of its own
            else:
                out.append([sl.a, sl.b, sl.l is frags])
        return out

    def native_cuts(self, resp):
        if resp == 'ERR':
            return 'ERR'
        t = resp.split()
        out = []
        for e in t[1:]:
            a, ln = e.split(':')
            a = int(a)
            out.append([a, a + int(ln), a >= 0] if int(ln) > 0 else [0, 0, True])
        return out

    def native(self, nat, cfg, inp):
        fr = N.frags_token([[float(x) for x in f] for f in inp['frags']])
        lw = ','.join(N.f64_token(float(x)) for x in inp['lws']) or '-'
        if cfg['algo'] == 'F':
            st, r = nat.call('first_fit %s %s' % (fr, lw))
        else:
            pen = ':'.join(str(x) for x in inp.get('pen', DEFAULT_PEN))
            st, r = nat.call('optimal_fit %s %s %s' % (fr, lw, pen))
        if st != 'OK':
            return st, r
        return 'OK', self.native_cuts(r)

    def run_algo(self, I, cfg, inp):
        frags, lws = self.to_interp(I, cfg, inp)
        fs = Slice(frags, 0, len(frags))
        ls = Slice(lws, 0, len(lws))
        if cfg['algo'] == 'F':
            res = I.run('wrap_first_fit', [fs, ls])
            return self.cuts_of(res, frags)
        pen = Agg('Penalties', list(inp.get('pen', DEFAULT_PEN)))
        res = I.run('wrap_optimal_fit', [fs, ls, Ptr([pen], 0)])
        if res.v == 1:
            return 'ERR'
        return self.cuts_of(res.f[0], frags)

    def kernel_witness(self, nat):
        """a kernel-mode (abstract pre-state) counterexample has no concrete input of its own.  To turn it into a
        replayable violation, a small fixed family of concrete fragment lists -- longer than the bounded spaces
        reach -- is run natively under the same oracle; a failing member is reported (and replayed like any other
        counterexample).  Nothing is claimed from this family when it passes: the kernel result then stays
        INCONCLUSIVE."""
        out = []
        for algo in ('F', 'O'):
            found = None
            for n in list(range(1, 14)) + [16, 17, 33, 64]:
                for fr in ([1, 1, 0], [2, 0, 0], [1, 1, 1], [0, 0, 0], [3, 1, 2]):
                    for lws in ([1], [3], [7], [2 * n + 1], [0], [], [1, 5], [5, 1, 3]):
                        cfg = {'algo': algo, 'num': 'int', 'n': n, 'nlw': len(lws), 'level': 'frag', 'feat': 'full'}
                        inp = {'frags': [list(fr) for _ in range(n)], 'lws': list(lws)}
                        st, res = self.native(nat, cfg, inp)
                        if st != 'OK':
                            continue
                        CI = ConcreteChecker()
                        try:
                            self.oracle(CI, cfg, inp, res)
                        except Infeasible:
                            pass
                        if CI.failed:
                            found = {'property': self.prop, 'clause': CI.failed[0][0], 'msg': CI.failed[0][1], 'cfg': cfg,
                                     'inputs': norm(inp)}
                            break
                    if found:
                        break
                if found:
                    break
            if found:
                out.append(found)
        return out

    def partition_oracle(self, I, n, cuts):
        if not I.check(cuts != 'ERR', 'no-overflow-error', 'optimal-fit returned OverflowError'):
            return False
        if n == 0:
            return I.check(len(cuts) == 1 and cuts[0][1] - cuts[0][0] == 0, 'empty-input-one-empty-line',
                           'empty input must yield exactly one empty line, got %r' % (cuts,))
        pos = 0
        ok = True
        for a, b, inside in cuts:
            ok = ok and inside and a == pos and b > a
            pos = b
        ok = ok and pos == n
        return I.check(ok, 'ordered-partition', 'lines %r are not an ordered partition of 0..%d into non-empty runs' % (cuts, n))
