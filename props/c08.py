"""C08 — every output line carries the configured indent; the rest depends only on the indents' widths/emptiness."""
import z3
from harness import *
from wrapbase import *


class C08(WrapHarness):
    prop = 'C08'
    validate_every = 9

    def spaces(self, tier, seed):
        q = tier == 'quick'
        out = []
        for g in self.option_grid(tier):
            c = dict(g, mode='prefix', ind='both', imax=1, icl=(1,))
            if g['sep'] == 'A':
                c.update(gen='sym1', n=2 if q else 3)
            else:
                c.update(gen='alpha', alphabet=[' ', 'a', '\n', '-', '你'], n=3 if q else 4)
            out.append(c)
        base = {'feat': 'full', 'algo': 'F', 'sep': 'A', 'split': 'H', 'bw': True}
        out.append(dict(base, mode='prefix', ind='both', imax=1, icl=(1, 3), gen='sym1', n=2 if q else 3))
        out.append(dict(base, mode='prefix', ind='both', imax=1, icl=(1,), gen='sym1', n=3 if q else 4, le='CRLF', bw=False))
        out.append(dict(base, mode='prefix', ind='both', imax=2, icl=(1,), gen='sym1', n=2 if q else 3, algo='O'))
        out.append(dict(base, mode='prefix', ind='both', imax=1, icl=(1,), gen='sym1', n=3, fn='fill', bw=False))
        # relational clause: two indent pairs of equal widths / emptiness give identical remainders
        for algo in ('F', 'O'):
            for bw in (True, False):
                out.append(dict(base, algo=algo, bw=bw, mode='relational', ind='both', imax=1,
                                icl=(1,) if q else (1, 3), gen='sym1', n=2 if q else 3))
        out += std_tmpl_spaces(dict(base, ind='both', imax=1, icl=(1,)), q, variants=False, cind=True, mode='prefix')
        if not q:
            out += tmpl_spaces(dict(base, ind='both', imax=1, icl=(1,)), ['sentence', 'paras', 'longword'], mode='relational')
            out += tmpl_spaces(dict(base, ind='both', imax=1, icl=(1, 3), bw=False), ['sentence', 'paras'], mode='prefix')
            out.append(dict(base, mode='relational', ind='both', imax=2, icl=(1, 3), gen='sym1', n=3))
            out.append(dict(base, mode='prefix', ind='both', imax=2, icl=(1, 3), gen='sym1', n=4))
        return out

    def bounds_text(self, tier):
        return ('texts of <= 2-4 symbolic 1-byte characters (so empty and space-only paragraphs, LF/CRLF are covered), '
                'symbolic indents of <= 1-2 characters (1- and 3-byte classes), all widths, full option grid; relational '
                'clause on pairs of indent pairs with equal display widths and emptiness')

    def run(self, I, cfg):
        inp = self.gen(I, cfg)
        if cfg['mode'] == 'relational':
            icl = tuple(cfg.get('icl', (1,)))
            ii2 = gen_indent(I, 'j', cfg['imax'], icl)
            si2 = gen_indent(I, 't', cfg['imax'], icl)
            if (len(ii2) == 0) != (len(inp['ii']) == 0) or (len(si2) == 0) != (len(inp['si']) == 0):
                raise Infeasible()
            S = self.spec
            I.add(v_eq(S.display_width(I, inp['ii'].chars, ansi=False), S.display_width(I, ii2.chars, ansi=False)))
            I.add(v_eq(S.display_width(I, inp['si'].chars, ansi=False), S.display_width(I, si2.chars, ansi=False)))
            inp['ii2'] = ii2
            inp['si2'] = si2
        I.inputs = inp
        fn = self.run_fill if cfg.get('fn') == 'fill' else self.run_wrap
        out = {'a': fn(I, cfg, inp)}
        if cfg['mode'] == 'relational':
            inp2 = dict(inp, ii=inp['ii2'], si=inp['si2'])
            out['b'] = fn(I, cfg, inp2)
        self.oracle(I, cfg, inp, out)
        return out

    def native(self, nat, cfg, inp):
        fn = self.native_fill if cfg.get('fn') == 'fill' else self.native_wrap
        st, a = fn(nat, cfg, inp)
        if st != 'OK':
            return st, a
        out = {'a': a}
        if cfg['mode'] == 'relational':
            st, b = fn(nat, cfg, dict(inp, ii=inp['ii2'], si=inp['si2']))
            if st != 'OK':
                return st, b
            out['b'] = b
        return 'OK', out

    def split_fill(self, I, cfg, txt):
        le = [13, 10] if cfg.get('le') == 'CRLF' else [10]
        cs = txt.chars
        lines, cur, i = [], [], 0
        while i < len(cs):
            if i + len(le) <= len(cs) and all(I.branch(v_eq(cs[i + t][0], le[t])) for t in range(len(le))):
                lines.append(cur)
                cur = []
                i += len(le)
            else:
                cur.append(cs[i])
                i += 1
        lines.append(cur)
        return [{'kind': 'O', 'off': None, 'txt': Txt(l)} for l in lines]

    def oracle(self, I, cfg, inp, out):
        a = out['a']
        if cfg.get('fn') == 'fill':
            a = self.split_fill(I, cfg, a)
        rems = []
        for k, ln in enumerate(a):
            ind = (inp['ii'] if k == 0 else inp['si']).chars
            cs = ln['txt'].chars
            ok = seq_eq(cs[:len(ind)], ind) if len(cs) >= len(ind) else False
            I.check(ok, 'line-starts-with-indent', 'line %d does not start with %s' %
                    (k, 'initial_indent' if k == 0 else 'subsequent_indent'))
            rems.append(cs[len(ind):])
        if cfg['mode'] == 'relational':
            b = out['b']
            if not I.check(len(a) == len(b), 'relational-line-count',
                           'number of lines depends on the indent characters, not only on their widths'):
                return
            for k, ln in enumerate(b):
                ind = (inp['ii2'] if k == 0 else inp['si2']).chars
                cs = ln['txt'].chars
                if len(cs) < len(ind):
                    I.check(False, 'line-starts-with-indent', 'line %d shorter than indent' % k)
                    continue
                I.check(seq_eq(cs[len(ind):], rems[k]), 'relational-remainder',
                        'text after the indent of line %d depends on the indent characters' % k)

    def shape(self, cfg, inputs, clause):
        if clause == 'line-starts-with-indent':
            le = '\r\n' if cfg.get('le') == 'CRLF' else '\n'
            paras = inputs['text'].split(le)
            if any(p.strip(' ') == '' for p in paras):
                return 'empty-or-space-only-paragraph'
        return clause


HARNESS = C08()
