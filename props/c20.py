"""C20 — wrap_columns lays text out in aligned columns, column-major, never failing."""
import z3
from harness import *
from wrapbase import *

ALPHA20 = [' ', 'a', 'Ｈ', '\n', '-']


class C20(WrapHarness):
    prop = 'C20'
    features = ('full',)
    validate_every = 6
    panic_policy = 'violation'       # "instead of making the call fail" is part of the property

    def spaces(self, tier, seed):
        q = tier == 'quick'
        out = []
        gapsets = [('', '', ''), ('|', '|', '|'), ('', '│', ''), ('　', ' ', '|')]
        for cols in (1, 2, 3) + (() if q else (4,)):
            for bw in (True, False):
                for gi, gs in enumerate(gapsets):
                    if q and gi >= 2 and (cols == 3 or not bw):
                        continue
                    out.append({'feat': 'full', 'algo': 'O', 'sep': 'U', 'split': 'H', 'bw': bw, 'cols': cols,
                                'gen': 'alpha', 'alphabet': ALPHA20[:4] if q else ALPHA20, 'n': 3 if q else 4,
                                'wmax': 7 if q else 12, 'gaps': list(gs)})
        out.append({'feat': 'full', 'algo': 'F', 'sep': 'A', 'split': 'N', 'bw': True, 'cols': 2, 'gen': 'sym1x', 'tokens': (),
                    'n': 3, 'wmax': 8 if q else 12, 'gaps': ['', '', '']})
        out.append({'feat': 'full', 'algo': 'F', 'sep': 'A', 'split': 'N', 'bw': False, 'cols': 2, 'gen': 'symallx',
                    'tokens': (), 'n': 2, 'wmax': 5 if q else 8, 'gaps': 'sym', 'gmax': 1, 'gcl': (1,) if q else (1, 3)})
        # wide columns (padding of up to 48 / 80 columns, empty cells): thresholds in the padding arithmetic
        for cols in (1, 2):
            out.append({'feat': 'full', 'algo': 'F', 'sep': 'A', 'split': 'H', 'bw': True, 'cols': cols, 'gen': 'tmpl',
                        'tmpl': 'ab ?d e', 'tname': 'tiny', 'wmax': 48 if q else 80, 'gaps': ['', ' ', '']})
        # sentence templates: realistic cell contents, total widths up to 24 / 40
        for cols in (2, 3):
            for t in (('short',) if q else ('short', 'sentence', 'wide', 'longword')):
                out.append({'feat': 'full', 'algo': 'F', 'sep': 'A', 'split': 'H', 'bw': cols == 2, 'cols': cols, 'gen': 'tmpl',
                            'tmpl': TEMPLATES[t], 'tname': t, 'wmax': 24 if q else 40, 'gaps': ['| ', ' | ', ' |']})
        return out

    def bounds_text(self, tier):
        q = tier == 'quick'
        return ('texts of <= %d tokens over %r (Unicode separator, optimal-fit defaults) and <= 3 symbolic characters '
                '(ASCII separator), 1..%d columns, total width symbolic in 0..%d (it sizes the paddings, which are '
                'enumerated), gaps from stated sets incl. empty, multi-byte and wide ones plus symbolic gaps of <= 1 character, break_words on/off; '
                'plus sentence templates at total widths up to %d and one / two wide columns at total widths up to %d'
                % (3 if q else 4, ALPHA20, 3 if q else 4, 8 if q else 14, 24 if q else 40, 48 if q else 80))

    def gen(self, I, cfg):
        inp = WrapHarness.gen(self, I, cfg)
        if cfg.get('gaps') == 'sym':
            for nm in ('left', 'mid', 'right'):
                inp[nm] = gen_indent(I, nm[0] + 'g', cfg.get('gmax', 1), tuple(cfg.get('gcl', (1,))))
        else:
            inp['left'], inp['mid'], inp['right'] = [T(g) for g in cfg['gaps']]
        return inp

    def run(self, I, cfg):
        inp = self.gen(I, cfg)
        I.inputs = inp
        I.int_enum_limit = cfg['wmax'] + 2
        v = I.run('wrap_columns', [to_str(inp['text']), cfg['cols'], self.options(I, cfg, inp), to_str(inp['left'], 'gap'),
                                   to_str(inp['mid'], 'gap'), to_str(inp['right'], 'gap')])
        out = [T(r) for r in v.l]
        self.oracle(I, cfg, inp, out)
        return out

    def native(self, nat, cfg, inp):
        st, r = nat.call('wrap_columns %s %d %s %s %s %s' % (N.hexs(inp['text']), cfg['cols'], N.hexs(inp['left']),
                                                             N.hexs(inp['mid']), N.hexs(inp['right']), self.nopts(cfg, inp)))
        if st != 'OK':
            return st, r
        return 'OK', [T(N.unhex(h)) for h in r.split()[1:]]

    def oracle(self, I, cfg, inp, rows):
        S = self.spec
        cols = cfg['cols']
        W = inp['W']
        dl = S.display_width(I, inp['left'].chars, sym_not_esc=True)
        dm = S.display_width(I, inp['mid'].chars, sym_not_esc=True)
        dr = S.display_width(I, inp['right'].chars, sym_not_esc=True)

        def ssub(a, b):
            return v_ite(v_lt(a, b), 0, v_sub(a, b))
        inner = ssub(ssub(ssub(W, dl), dr), dm * (cols - 1) if not isinstance(dm, int) else dm * (cols - 1))
        inner = I.enumerate_int(inner, 'inner width', cfg['wmax'] + 2) if is_sym(inner) else inner
        cw = max(inner // cols, 1)
        rem = inner % cw
        # the reference lines: wrap(text) at the column width, by the real wrap (native in replay, MIR otherwise)
        if getattr(I, 'concrete', False) and not hasattr(I, 'run'):
            st, ref = self.native_wrap(I.native, cfg, dict(inp, text=inp['text'].py(), ii='', si=''), W=cw)
            if st != 'OK':
                I.check(False, 'reference-wrap-failed', 'wrap failed natively')
                return
        else:
            ref = self.run_wrap(I, cfg, dict(inp, ii=Txt([]), si=Txt([])), W=cw)
        L = len(ref)
        nrows = L // cols + (1 if L % cols else 0)
        if not I.check(len(rows) == nrows, 'row-count', 'expected %d rows for %d lines in %d columns, got %d'
                       % (nrows, L, cols, len(rows))):
            return
        sp = (32, 1)
        all_fit = True
        for r in range(nrows):
            exp = list(inp['left'].chars)
            for c in range(cols):
                k = r + c * nrows
                if k < L:
                    cell = ref[k]['txt'].chars
                    w = S.display_width(I, cell, sym_not_esc=True)
                    pad = I.enumerate_int(ssub(cw, w), 'padding', cfg['wmax'] + 2) if is_sym(w) else max(cw - w, 0)
                    if I.branch(v_lt(cw, w)):
                        all_fit = False
                    exp += cell + [sp] * pad
                else:
                    exp += [sp] * cw
                if c == cols - 1:
                    exp += [sp] * rem
                else:
                    exp += inp['mid'].chars
            exp += inp['right'].chars
            I.check(seq_eq(rows[r].chars, exp), 'row-layout',
                    'row %d is not left gap + column-major cells padded to the column width + gaps' % r)
        if all_fit:
            total = v_add(v_add(dl, dr), v_add(dm * (cols - 1), cw * cols + rem))
            for r in range(nrows):
                I.check(v_eq(S.display_width(I, rows[r].chars, sym_not_esc=True), total), 'rows-equal-width',
                        'row %d does not have the common display width' % r)

    def shape(self, cfg, inputs, clause):
        if clause == 'panic':
            return 'panic/line-wider-than-column'
        return clause


HARNESS = C20()
