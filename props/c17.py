"""C17 — fill_inplace only turns spaces into newlines and agrees with wrap."""
import z3
from harness import *
from wrapbase import *


class C17(WrapHarness):
    prop = 'C17'
    features = ('full', 'nd')
    validate_every = 5

    def spaces(self, tier, seed):
        q = tier == 'quick'
        out = []
        for feat in ('full', 'nd'):
            out.append({'feat': feat, 'gen': 'sym1', 'n': 4 if q else 6})
            out.append({'feat': feat, 'gen': 'symall', 'n': 3 if q else 4})
        out.append({'feat': 'full', 'gen': 'words', 'nwords': 3 if q else 4, 'wl': 1 if q else 2, 'maxgap': 2, 'lead': True, 'trail': True})
        out.append({'feat': 'full', 'gen': 'alpha', 'alphabet': [' ', 'a', '\n', '你', '-'], 'n': 5 if q else 7})
        out.append({'feat': 'full', 'gen': 'alpha', 'alphabet': ['\r', '\n', ' ', 'a', '\u00e9'], 'n': 5 if q else 6})
        out += std_tmpl_spaces({'feat': 'full'}, q, variants=False)
        return out

    def bounds_text(self, tier):
        q = tier == 'quick'
        return ('texts of <= %d fully symbolic 1-byte characters (spaces, LF, CR, ESC included), <= %d of any UTF-8 class, '
                '<= %d over the alphabet [space, a, LF, CJK, hyphen]; every width 0..2^64-1'
                % (4 if q else 6, 3 if q else 4, 5 if q else 7))

    def run(self, I, cfg):
        text = self.gen_text(I, cfg)
        W = I.sym_int('W', 0, U64)
        inp = {'text': text, 'W': W, 'ii': Txt([]), 'si': Txt([])}
        I.inputs = inp
        box = [OString(text.chars)]
        I.run('fill_inplace', [Ptr(box, 0), W])
        filled = T(box[0])
        c2 = {'le': 'LF', 'bw': False, 'algo': 'F', 'sep': 'A', 'split': 'N'}
        ref = self.run_wrap(I, c2, inp)
        out = {'filled': filled, 'wrap': ref}
        self.oracle(I, cfg, inp, out)
        return out

    def native(self, nat, cfg, inp):
        st, r = nat.call('fill_inplace %s %d' % (N.hexs(inp['text']), inp['W']))
        if st != 'OK':
            return st, r
        c2 = {'le': 'LF', 'bw': False, 'algo': 'F', 'sep': 'A', 'split': 'N'}
        st, w = self.native_wrap(nat, c2, inp)
        if st != 'OK':
            return st, w
        return 'OK', {'filled': T(N.unhex(r)), 'wrap': w}

    def oracle(self, I, cfg, inp, out):
        orig = inp['text'].chars
        got = out['filled'].chars
        same_shape = len(orig) == len(got) and all(a[1] == b[1] for a, b in zip(orig, got))
        if not I.check(same_shape, 'same-length', 'fill_inplace changed the length / character structure of the text'):
            return
        for k, (a, b) in enumerate(zip(orig, got)):
            I.check(v_or(v_eq(a[0], b[0]), v_and(v_eq(a[0], 32), v_eq(b[0], 10))), 'only-space-to-newline',
                    'character %d changed other than space -> newline' % k)
        # split at newlines, trim trailing spaces == wrap(original) with the documented options
        lines, cur = [], []
        for c in got:
            if I.branch(v_eq(c[0], 10)):
                lines.append(cur)
                cur = []
            else:
                cur.append(c)
        lines.append(cur)
        for ln in lines:
            while ln and I.branch(v_eq(ln[-1][0], 32)):
                ln.pop()
        ref = [l['txt'].chars for l in out['wrap']]
        if not I.check(len(lines) == len(ref), 'agrees-with-wrap',
                       'fill_inplace yields %d lines, wrap(original) %d' % (len(lines), len(ref))):
            return
        for k, (a, b) in enumerate(zip(lines, ref)):
            I.check(seq_eq(a, b), 'agrees-with-wrap', 'line %d differs from wrap(original)' % k)


HARNESS = C17()
