"""Engine C harnesses shared by C06 and C07: one loop iteration, from an arbitrary abstract pre-state, of
  * the first-fit loop of `wrap_first_fit`                         (run_kernel_first_fit)
  * the back-tracking loop of `wrap_optimal_fit` (minima -> lines)  (run_kernel_backtrack)
Fragment lists / line-width lists / minima vectors of ANY length; the invariant is stated in each harness."""
import z3
from harness import *
import kernel as K


class FitKernels:
    # ---------------------------------------------------------------- kernel mode
    def run_kernel_first_fit(self, I, cfg):
        f = I.items.get('wrap_first_fit')
        if f is None:
            raise Unsupported('kernel: wrap_first_fit not found')
        K.compile_fn(f)
        d = f.debug
        for nm in ('fragments', 'line_widths', 'default_line_width', 'lines', 'start', 'width', 'iter'):
            if nm not in d:
                raise OutOfBounds('kernel mode not applicable to this code shape: local `%s` not found in wrap_first_fit' % nm)
        fp = cfg.get('num') == 'fp'
        B = 1 << 40

        def num(name):
            if fp:
                v = z3.FP(name, z3.Float64())
                I.add(z3.Not(z3.fpIsNaN(v)))
                I.add(z3.Not(z3.fpIsInf(v)))
                return SymFP(v)
            return SymF(I.sym_int(name, -B, B))
        n = I.sym_int('n', 0, B)
        idx = I.sym_int('idx', 0, B)
        start = I.sym_int('start', 0, B)
        k = I.sym_int('k', 0, B)
        Lw = I.sym_int('L', 0, B)
        I.add(idx <= n)
        I.add(z3.If(idx == 0, start == 0, start <= idx - 1))        # the loop invariant
        width = num('acc')
        frags = K.AbsFrags(I, n, lambda j: Agg('F', [num('w%d' % j), num('s%d' % j), num('p%d' % j)]))
        lws = K.AbsWidths(I, Lw, lambda j: num('lw%d' % j))
        if I.branch(v_lt(0, Lw)):
            dl = lws.at(v_sub(Lw, 1))
        else:
            dl = SymFP(z3.FPVal(0.0, z3.Float64())) if fp else SymF(z3.IntVal(0))
        lines = K.AbsLines(k)
        it = K.AbsEnumIter(frags, idx)
        L = {0: None, 1: frags, 2: lws, d['default_line_width']: dl, d['lines']: lines, d['start']: start,
             d['width']: width, d['iter']: it}
        head = K.find_loop_head(f, d['iter'])
        saved = (I.models, I.resolved)
        if not hasattr(self, '_kmodels'):
            self._kmodels = K.KernelModels(self.tables, I.native)
        I.models, I.resolved = self._kmodels, {}
        I.inputs = None
        try:
            res = I.exec_blocks(f, L, head, {head})
        except (KeyError, Unsupported) as e:
            # the loop no longer has the shape the kernel harness knows (e.g. a new loop-carried local): the
            # inductive-step claim is simply not made for this tree; the bounded spaces still decide the property
            raise OutOfBounds('kernel mode not applicable to this code shape: %s' % (e,))
        finally:
            I.models, I.resolved = saved

        def lt(a, b):
            return I.fbinop('Lt', a, b)

        def addf(a, b):
            return I.fbinop('Add', a, b)

        def eqf(a, b):
            if isinstance(a, SymFP):
                return a.t == b.t if a.t.eq(b.t) or True else None
            return I.fbinop('Eq', a, b)
        if res[0] == 'stopped':
            fr = frags.elem(idx)
            w, s, p = fr.f
            I.check(v_eq(it.pos, v_add(idx, 1)), 'kernel-iterator-advances', 'iterator did not advance by one')
            lw = lws.at(k) if I.branch(v_lt(k, Lw)) else dl
            over = lt(lw, addf(addf(width, w), p))
            expect_break = v_and(v_lt(start, idx), over)
            start2, width2 = L[d['start']], L[d['width']]
            if lines.pushed:
                sub = lines.pushed[0]
                I.check(len(lines.pushed) == 1 and isinstance(sub, K.AbsSub), 'kernel-one-push', 'more than one line pushed')
                I.check(v_and(v_eq(sub.a, start), v_eq(sub.b, idx), v_lt(start, idx)), 'kernel-pushed-line-is-start-to-idx',
                        'the emitted line is not the non-empty run fragments[start..idx]')
                I.check(expect_break, 'break-only-when-overflowing',
                        'a break was placed although the line is empty or the fragment fits')
                I.check(v_eq(start2, idx), 'kernel-start-updated', 'start not set to idx after a break')
                I.check(I.fbinop('Eq', width2, addf(w, s)) if not fp else width2.t.eq(addf(w, s).t) or
                        I.fbinop('Eq', width2, addf(SymFP(z3.FPVal(0.0, z3.Float64())), addf(w, s))),
                        'kernel-width-reset', 'accumulated width after a break is not width+whitespace of the fragment')
            else:
                I.check(v_not(expect_break) if not isinstance(expect_break, bool) else (not expect_break),
                        'no-break-when-overflowing', 'no break although the line is non-empty and the fragment does not fit')
                I.check(v_eq(start2, start), 'kernel-start-kept', 'start changed without a break')
                I.check(I.fbinop('Eq', width2, addf(width, addf(w, s))), 'kernel-width-accumulates',
                        'accumulated width is not previous + width + whitespace')
            I.check(v_le(start2, idx), 'kernel-invariant-preserved', 'invariant start <= idx broken')
            return 'step'
        # loop exit: the iterator is exhausted; exactly the final line [start..n] is pushed
        I.check(v_eq(it.pos, n) if not isinstance(v_eq(it.pos, n), bool) else it.pos == n, 'kernel-exit-at-end',
                'loop left before the last fragment')
        ok = len(lines.pushed) == 1 and isinstance(lines.pushed[0], K.AbsSub)
        if I.check(ok, 'kernel-final-line', 'final line not pushed exactly once'):
            sub = lines.pushed[0]
            I.check(v_and(v_eq(sub.a, start), v_eq(sub.b, n)), 'kernel-final-line', 'final line is not fragments[start..]')
            I.check(v_or(v_eq(n, 0), v_lt(start, n)), 'kernel-final-line-non-empty', 'final line empty for non-empty input')
        return 'exit'


    # ------------------------------------------------ optimal-fit: back-tracking loop, one iteration, any length
    def run_kernel_backtrack(self, I, cfg):
        """`loop { prev = minima[pos].0; lines.push(&fragments[prev..pos]); pos = prev; if pos == 0 { break } }
        lines.reverse(); Ok(lines)` from an arbitrary state satisfying the invariant

            first iteration:  pos == n, no line pushed yet
            later iterations: 0 < pos < n and the k > 0 lines pushed so far are, in push order, the non-empty runs
                              [p1..n), [p2..p1), ..., [pos..p_{k-1})     (descending, contiguous, covering [pos..n))

        under the contract of smawk::online_column_minima (checked separately, level `smawk`): minima has n + 1
        entries, minima[0].0 == 0 and minima[j].0 < j for j >= 1.  Obligations: no panic; exactly the run
        [minima[pos].0 .. pos) is pushed, it is non-empty (n > 0) and abuts the run pushed before it; pos strictly
        decreases (termination); the loop is left exactly when pos reaches 0, `lines` is reversed exactly once and
        returned in Ok.  By induction the result is an ordered partition of 0..n into non-empty runs (one empty run
        for n == 0), for fragment lists of any length."""
        f = I.items.get('wrap_optimal_fit')
        if f is None:
            raise Unsupported('kernel: wrap_optimal_fit not found')
        K.compile_fn(f)
        d = f.debug
        for nm in ('fragments', 'minima', 'lines', 'pos'):
            if nm not in d:
                raise OutOfBounds('kernel mode not applicable to this code shape: local `%s` not found in wrap_optimal_fit' % nm)
        B = 1 << 40
        n = I.sym_int('n', 0, B)
        pos = I.sym_int('pos', 0, B)
        k = I.sym_int('k', 0, B)
        I.add(z3.Or(z3.And(pos == n, k == 0), z3.And(pos > 0, pos < n, k > 0)))
        rows = []

        def mk(j):
            r = I.sym_int('row%d' % len(rows), 0, B)
            I.add(z3.If(j == 0, r == 0, r < j) if is_sym(j) else (r == 0 if j == 0 else r < j))
            rows.append((j, r))
            return Agg('()', [r, SymFP(z3.FP('cost%d' % len(rows), z3.Float64()))])
        frags = K.AbsFrags(I, n, lambda j: Agg('F', [SymF(I.sym_int('w%d' % j, 0, B))] * 3))
        minima = K.AbsMinima(I, v_add(n, 1), mk)
        lines = K.AbsLines(k)
        L = {0: None, 1: frags, d['minima']: minima, d['lines']: lines, d['pos']: pos}
        saved = (I.models, I.resolved)
        if not hasattr(self, '_kmodels'):
            self._kmodels = K.KernelModels(self.tables, I.native)
        I.models, I.resolved = self._kmodels, {}
        I.inputs = None
        try:
            head = K.find_block(f, r'as Index<usize>>::index$', d['pos'])
            try:
                res = I.exec_blocks(f, L, head, {head})
            except Panic as e:
                I.check(False, 'kernel-backtrack-no-panic', 'the back-tracking step panics: %s' % (e,))
                raise
        except (KeyError, Unsupported) as e:
            raise OutOfBounds('kernel mode not applicable to this code shape: %s' % (e,))
        finally:
            I.models, I.resolved = saved
        ok = len(lines.pushed) == 1 and isinstance(lines.pushed[0], K.AbsSub) and len(rows) == 1
        if not I.check(ok, 'kernel-backtrack-one-push', 'not exactly one line pushed from one minima entry'):
            return 'bad'
        sub = lines.pushed[0]
        prev = rows[0][1]
        I.check(v_eq(rows[0][0], pos), 'kernel-backtrack-reads-minima-at-pos', 'the entry read is not minima[pos]')
        I.check(v_and(v_eq(sub.a, prev), v_eq(sub.b, pos)), 'kernel-backtrack-line-is-prev-to-pos',
                'the pushed line is not fragments[minima[pos].0 .. pos]')
        I.check(v_or(v_eq(n, 0), v_lt(sub.a, sub.b)), 'kernel-backtrack-line-non-empty', 'an empty line is pushed for non-empty input')
        if res[0] == 'stopped':
            pos2 = L[d['pos']]
            I.check(v_eq(pos2, prev), 'kernel-backtrack-pos-updated', 'pos is not set to the start of the pushed line')
            I.check(v_and(v_lt(0, pos2), v_lt(pos2, pos)), 'kernel-backtrack-progress',
                    'loop continues although pos reached 0, or pos did not decrease')
            I.check(lines.reversed == 0, 'kernel-backtrack-reverse-once', 'lines reversed inside the loop')
            return 'step'
        I.check(v_eq(prev, 0), 'kernel-backtrack-exit-at-zero', 'loop left before the first fragment was covered')
        I.check(lines.reversed == 1, 'kernel-backtrack-reverse-once', 'lines not reversed exactly once after the loop')
        r = res[1]
        I.check(isinstance(r, Enum) and r.v == 0 and len(r.f) == 1 and deref(r.f[0]) is lines, 'kernel-backtrack-returns-lines',
                'the function does not return Ok(lines)')
        return 'exit'

    # ------------------------------------------------ smawk::online_column_minima: the contract the kernel assumes
    def run_smawk_contract(self, I, cfg):
        """smawk::online_column_minima (real MIR) of a given size over an ARBITRARY matrix: every call of the matrix
        closure returns a fresh unconstrained value (f64 incl. NaN / infinities, or an integer), so the run covers
        every cost function, monotone or not, deterministic or not.  Obligations: the closure is only called with
        i < j < size and with a minima slice that contains entry i (what the cost closure of wrap_optimal_fit
        indexes), and every entry k of that slice already names a row < k (what LineNumbers::get relies on); the result has
        `size` entries, entry 0 is (0, initial) and entry j >= 1 names a row < j."""
        size = cfg['size']
        fp = cfg.get('num') == 'fp'
        vals = []
        calls = []
        inp = {'size': size, 'vals': vals}
        I.inputs = inp

        def matrix(I_, minima, i, j):
            if fp:
                v = z3.FP('m%d' % len(vals), z3.Float64())
                vals.append(v)
                r = SymFP(v)
            else:
                v = I_.sym_int('m%d' % len(vals), -(1 << 40), 1 << 40)
                vals.append(v)
                r = SymF(v)
            l, a, b = I_.models.as_list(minima)
            ok = all((l[a + k].f[0] == 0) if k == 0 else (l[a + k].f[0] < k) for k in range(b - a))
            calls.append([i, j, b - a, int(ok)])
            return r
        res = I.run('online_column_minima', [SymFP(z3.FPVal(0.0, z3.Float64())) if fp else SymF(z3.IntVal(0)), size,
                                            PyFn(matrix, 'matrix')])
        out = {'rows': [e.f[0] for e in res.l], 'calls': calls}
        self.smawk_oracle(I, cfg, inp, out)
        return out

    def smawk_oracle(self, I, cfg, inp, out):
        size = inp['size']
        for i, j, ln, ok in out['calls']:
            I.check(v_and(v_lt(i, j), v_lt(j, size), v_lt(i, ln)), 'smawk-closure-called-in-range',
                    'matrix closure called with (i, j) = (%s, %s) and %s minima, size %s' % (i, j, ln, size))
            I.check(ok == 1, 'smawk-row-below-column', 'the minima slice handed to the closure has an entry naming a row '
                    'not below its column (LineNumbers::get would recurse forever / index out of range)')
        rows = out['rows']
        if I.check(len(rows) == size, 'smawk-result-length', 'result has %d entries for size %d' % (len(rows), size)):
            I.check(v_eq(rows[0], 0), 'smawk-row-below-column', 'entry 0 names row %s' % (rows[0],))
            for j in range(1, size):
                I.check(v_lt(rows[j], j), 'smawk-row-below-column', 'entry %d names row %s (not < %d)' % (j, rows[j], j))

    def native_smawk(self, nat, cfg, inp):
        vals = ','.join(N.f64_token(float(x)) for x in inp['vals']) or '-'
        st, r = nat.call('online_minima %d %s' % (inp['size'], vals))
        if st != 'OK':
            return st, r
        t = r.split()
        rows = [int(x) for x in t[0].split(',')] if t[0] != '-' else []
        calls = [[int(y) for y in x.split(':')] for x in t[1].split(',')] if t[1] != '-' else []
        return 'OK', {'rows': rows, 'calls': calls}
