"""C01 — wrapping preserves the text: lines are in-order slices of the input."""
import z3
from harness import *
from wrapbase import *


def slices_oracle(I, cfg, inp, lines, what='wrap', check_borrow=True):
    text = inp['text'].chars
    n = len(text)
    le = cfg.get('le', 'LF')
    split = cfg.get('split', 'H')
    custom = split.startswith('C')
    ii, si = inp['ii'].chars, inp['si'].chars
    boff = [0]
    for _, nb in text:
        boff.append(boff[-1] + nb)
    bidx = {o: i for i, o in enumerate(boff)}

    def is_le_char(i):
        c = text[i][0]
        if le == 'LF':
            return v_eq(c, 10)
        a = v_and(v_eq(c, 13), v_eq(text[i + 1][0], 10)) if i + 1 < n else False
        b = v_and(v_eq(c, 10), v_eq(text[i - 1][0], 13)) if i >= 1 else False
        return v_or(a, b)

    lechar = [is_le_char(i) for i in range(n)]
    gapchar = [v_or(v_eq(text[i][0], 32), lechar[i]) for i in range(n)]

    rems = []
    for k, ln in enumerate(lines):
        ind = ii if k == 0 else si
        cs = ln['txt'].chars
        ok = seq_eq(cs[:len(ind)], ind) if len(cs) >= len(ind) else False
        if not I.check(ok, 'line-starts-with-indent', '%s line %d does not start with the applicable indent' % (what, k)):
            return
        rem = cs[len(ind):]
        rems.append(rem)
        if check_borrow and not custom and len(ind) == 0:
            I.check(ln['kind'] in ('B', 'E'), 'borrowed-subslice',
                    'line %d has no indent and no inserted hyphen but is not a borrowed sub-slice of the input' % k)
        if rem and not (cfg.get('sep') == 'U' and cfg.get('bw', True)):
            body_last = rem[-1][0]
            I.check(v_ne(body_last, 32), 'slice-ends-in-space', 'line %d ends in a space' % k)

    L = len(lines)
    memo = {}

    def wordchar(i):
        # a character of a word of the ASCII separator: not a space and not part of a line ending
        return v_and(v_ne(text[i][0], 32), v_not(lechar[i]))

    def split_point(b):
        """an inserted hyphen is only legitimate where the (injected) splitter has a split point: C1 every interior
        character boundary of a word, C2 only the first, C3 only the last.  Tied to words of the ASCII separator;
        for the Unicode separator (words are not delimited by spaces only) any position is accepted."""
        if cfg.get('sep', 'A') != 'A' or split not in ('C1', 'C2', 'C3'):
            return True
        if b <= 0 or b >= n:
            return False
        inside = v_and(wordchar(b - 1), wordchar(b))
        if split == 'C1':
            return inside
        if split == 'C2':
            first = True if b - 1 == 0 else v_not(wordchar(b - 2))
            return v_and(inside, first)
        last = True if b + 1 == n else v_not(wordchar(b + 1))
        return v_and(inside, last)

    def gap(e, a, first):
        conds = [(lechar[i] if first else gapchar[i]) for i in range(e, a)]
        return v_and(*conds)

    def F(k, e):
        key = (k, e)
        if key in memo:
            return memo[key]
        if k == L:
            r = gap(e, n, False)
        else:
            rem = rems[k]
            ln = lines[k]
            alts = []
            if ln['kind'] == 'B' and ln['off'] in bidx and len(rem) == len(ln['txt'].chars):
                cands = [bidx[ln['off']]] if bidx[ln['off']] >= e else []
                if len(rem) == 0:
                    cands = list(range(e, n + 1))     # an empty slice has no position of its own
            else:
                cands = list(range(e, n + 1))
            for a in cands:
                g = gap(e, a, k == 0)
                if g is False:
                    continue
                variants = []
                if a + len(rem) <= n:
                    variants.append((seq_eq(rem, text[a:a + len(rem)]), a + len(rem)))
                if custom and rem and a + len(rem) - 1 <= n:
                    b_ = a + len(rem) - 1
                    variants.append((v_and(v_eq(rem[-1][0], ord('-')) if rem[-1][1] == 1 else False,
                                           seq_eq(rem[:-1], text[a:b_]), split_point(b_)), b_))
                for mt, b in variants:
                    if mt is False:
                        continue
                    rest = F(k + 1, b)
                    if rest is False:
                        continue
                    alts.append(v_and(g, mt, rest))
            r = v_or(*alts)
        memo[key] = r
        return r

    I.check(F(0, 0), 'in-order-slices',
            '%s output is not a sequence of in-order, non-overlapping slices of the input with only spaces / '
            'line endings uncovered' % what)


class C01(WrapHarness):
    prop = 'C01'
    validate_every = 9

    def spaces(self, tier, seed):
        q = tier == 'quick'
        out = []
        for g in self.option_grid(tier):
            c = dict(g)
            if g['sep'] == 'A':
                c.update(gen='sym1', n=3 if q else 4, fn='wrap')
            else:
                c.update(gen='alpha', alphabet=ALPHA_U[:6] if q else ALPHA_U[:9], n=3 if q else 4, fn='wrap')
            out.append(c)
        base = {'feat': 'full', 'algo': 'F', 'sep': 'A', 'split': 'H', 'bw': True}
        # multi-byte classes, deeper text, indents, CRLF, fill
        out.append(dict(base, gen='symall', n=3 if q else 4, fn='wrap'))
        out.append(dict(base, gen='sym1', n=4 if q else 5, fn='wrap'))
        out.append(dict(base, gen='sym1', n=4 if q else 5, fn='wrap', le='CRLF'))
        out.append(dict(base, gen='sym1', n=3 if q else 4, fn='wrap', ind='both', imax=1))
        out.append(dict(base, gen='sym1', n=3 if q else 4, fn='wrap', ind='both', imax=1, split='C1'))
        out.append(dict(base, gen='words', nwords=3, wl=1 if q else 2, maxgap=2, lead=True, trail=True, fn='wrap'))
        out.append(dict(base, gen='words', nwords=3, wl=1, maxgap=2, fn='wrap', algo='O', wmax=1 << 16))
        out.append(dict(base, gen='sym1', n=3 if q else 4, fn='wrap', split='C3'))
        out.append(dict(base, gen='sym1', n=3 if q else 4, fn='wrap', split='C3', algo='O', ind='si', imax=1))
        out.append(dict(base, gen='sym1', n=3 if q else 4, fn='fill', split='C2', bw=True))
        out.append(dict(base, gen='sym1', n=3 if q else 4, fn='fill'))
        out.append(dict(base, gen='sym1', n=3 if q else 4, fn='fill', le='CRLF', ind='ii', imax=1))
        out.append(dict(base, algo='O', gen='sym1', n=3 if q else 4, fn='wrap', ind='both', imax=1))
        out.append(dict(base, algo='O', sep='U', gen='alpha', alphabet=ALPHA_U[:8], n=3 if q else 4, fn='wrap',
                        ind='si', imax=1))
        out.append(dict(base, feat='nd', gen='symall', n=3 if q else 4, fn='wrap'))
        out += std_tmpl_spaces(base, q, cind=True, fn='wrap')
        out += atmpl_spaces(base, ['short', 'wide'] if q else ['short', 'wide', 'sentence', 'ansi', 'hyphens'],
                            ALPHA_U[:6] if q else ALPHA_U[:10], fn='wrap')
        if not q:
            out += tmpl_spaces(base, ['sentence', 'paras', 'crlf'], fn='fill')
            out += tmpl_spaces(dict(base, split='C3'), ['sentence', 'hyphens'], fn='wrap')
            out += tmpl_spaces(dict(base, algo='O', wmax=1 << 16), ['short', 'longword', 'paras'], fn='wrap')
            out.append(dict(base, algo='O', sep='U', gen='alpha', alphabet=ALPHA_U, n=4, fn='fill'))
            out.append(dict(base, gen='sym1', n=6, fn='wrap', split='N', bw=False))
            out.append(dict(base, gen='sym1', n=4, fn='wrap', ind='both', imax=2))
        return out

    def bounds_text(self, tier):
        q = tier == 'quick'
        return ('texts of <= %d characters (1-byte class fully symbolic incl. ESC, CR, LF; all four UTF-8 classes at '
                '<= %d; Unicode separator over the alphabet %r), every width 0..2^64-1 for first-fit and 0..2^20 for '
                'optimal-fit, option grid {first-fit, optimal-fit} x {AsciiSpace, Unicode} x {NoHyphenation, HyphenSplitter, '
                'custom splitter inserting hyphens} x break_words x feature sets, LF and CRLF, symbolic indents of <= 1 '
                'character (2 in thorough). Longer texts/indents are outside the claim.'
                % (4 if q else 6, 3 if q else 4, ALPHA_U[:6] if q else ALPHA_U))

    def run(self, I, cfg):
        inp = self.gen(I, cfg)
        I.inputs = inp
        if cfg['fn'] == 'wrap':
            out = self.run_wrap(I, cfg, inp)
        else:
            out = self.run_fill(I, cfg, inp)
        self.oracle(I, cfg, inp, out)
        return out

    def native(self, nat, cfg, inp):
        if cfg['fn'] == 'wrap':
            return self.native_wrap(nat, cfg, inp)
        return self.native_fill(nat, cfg, inp)

    def oracle(self, I, cfg, inp, out):
        if cfg['fn'] == 'wrap':
            slices_oracle(I, cfg, inp, out)
            return
        # fill: the same lines joined by the line ending. Split the result at line endings that are not part of
        # the slices: we re-derive lines by splitting on the line ending sequence
        le = [13, 10] if cfg.get('le') == 'CRLF' else [10]
        cs = out.chars
        lines = []
        cur = []
        i = 0
        while i < len(cs):
            hit = i + len(le) <= len(cs) and all(I.branch(v_eq(cs[i + t][0], le[t])) for t in range(len(le)))
            if hit:
                lines.append(cur)
                cur = []
                i += len(le)
            else:
                cur.append(cs[i])
                i += 1
        lines.append(cur)
        neutral = [{'kind': 'O', 'off': None, 'txt': Txt(l)} for l in lines]
        slices_oracle(I, cfg, inp, neutral, what='fill', check_borrow=False)


HARNESS = C01()
