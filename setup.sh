#!/bin/bash
# Build the framework from files on disk only (offline).
set -e
cd "$(dirname "$0")"
export CARGO_NET_OFFLINE=true
export RUSTFLAGS="--cfg fuzzing"
(cd native && cargo build --offline -q && cargo build --offline --release -q)
(cd native_nd && cargo build --offline -q && cargo build --offline --release -q)
echo "setup ok"
