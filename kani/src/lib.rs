//! Engine B: Kani/CBMC harnesses over the compiled crate (cross-check of engine A on the real unicode-width tables).
#[cfg(kani)]
mod proofs {
    use textwrap::core::display_width;
    use unicode_width::UnicodeWidthChar;

    /// every Unicode scalar value except ESC: display_width of the one-character string is the unicode-width
    /// table entry (None -> 0) and never exceeds the UTF-8 length (the lemma behind wrap's byte-length shortcut)
    #[kani::proof]
    #[kani::unwind(3)]
    fn b1_single_char_width() {
        let c: char = kani::any();
        kani::assume(c != '\u{1b}');
        let mut buf = [0u8; 4];
        let s: &str = c.encode_utf8(&mut buf);
        let w = display_width(s);
        assert!(w <= s.len());
        assert_eq!(w, c.width().unwrap_or(0));
        kani::cover!(w == 0);
        kani::cover!(w == 2);
        kani::cover!(s.len() == 4);
    }
}
