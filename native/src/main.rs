//! Native runner: executes the real, normally compiled textwrap on concrete
//! inputs. Used (a) to replay solver counterexamples against the real build,
//! (b) to validate the MIR interpreter differentially, (c) to extract the
//! character tables (is_whitespace, is_alphanumeric, unicode-width) from the
//! real implementations, (d) to run unicode_linebreak natively.
//!
//! Protocol: one request per line on stdin, one response line on stdout.
//! Strings are hex encoded UTF-8 ("-" is the empty string).

use std::borrow::Cow;
use std::cell::RefCell;
use std::collections::HashMap;
use std::io::{BufRead, Write};
use std::panic;

use textwrap::core::{Fragment, Word};
use textwrap::{LineEnding, Options, WordSeparator, WordSplitter, WrapAlgorithm};

thread_local! {
    static SPLITS: RefCell<HashMap<String, Vec<usize>>> = RefCell::new(HashMap::new());
}

fn custom_splitter(word: &str) -> Vec<usize> {
    SPLITS.with(|s| s.borrow().get(word).cloned().unwrap_or_default())
}

/// deterministic custom splitters that insert hyphens: every interior char boundary / only the first one
fn custom_all(word: &str) -> Vec<usize> {
    word.char_indices().map(|(i, _)| i).filter(|i| *i > 0).collect()
}
fn custom_last(word: &str) -> Vec<usize> {
    word.char_indices().map(|(i, _)| i).filter(|i| *i > 0).last().into_iter().collect()
}
fn custom_first(word: &str) -> Vec<usize> {
    word.char_indices().map(|(i, _)| i).filter(|i| *i > 0).take(1).collect()
}

fn unhex(s: &str) -> String {
    if s == "-" {
        return String::new();
    }
    let b: Vec<u8> = (0..s.len() / 2)
        .map(|i| u8::from_str_radix(&s[2 * i..2 * i + 2], 16).unwrap())
        .collect();
    String::from_utf8(b).expect("request strings are UTF-8")
}

fn hex(s: &str) -> String {
    if s.is_empty() {
        return "-".to_string();
    }
    s.bytes().map(|b| format!("{:02x}", b)).collect()
}

struct Opts {
    width: usize,
    le: LineEnding,
    ii: String,
    si: String,
    bw: bool,
    algo: WrapAlgorithm,
    sep: WordSeparator,
    split: WordSplitter,
}

#[cfg(feature = "full")]
fn parse_algo(t: &str) -> WrapAlgorithm {
    use textwrap::wrap_algorithms::Penalties;
    if t == "F" {
        WrapAlgorithm::FirstFit
    } else if t == "O" {
        WrapAlgorithm::new_optimal_fit()
    } else {
        let p: Vec<usize> = t[2..].split(':').map(|x| x.parse().unwrap()).collect();
        let mut pen = Penalties::new();
        pen.nline_penalty = p[0];
        pen.overflow_penalty = p[1];
        pen.short_last_line_fraction = p[2];
        pen.short_last_line_penalty = p[3];
        pen.hyphen_penalty = p[4];
        WrapAlgorithm::OptimalFit(pen)
    }
}
#[cfg(not(feature = "full"))]
fn parse_algo(t: &str) -> WrapAlgorithm {
    assert!(t == "F", "only first-fit without smawk");
    WrapAlgorithm::FirstFit
}

fn parse_sep(t: &str) -> WordSeparator {
    match t {
        "A" => WordSeparator::AsciiSpace,
        #[cfg(feature = "full")]
        "U" => WordSeparator::UnicodeBreakProperties,
        _ => panic!("bad separator {}", t),
    }
}

fn parse_split(t: &str) -> WordSplitter {
    if t == "N" {
        WordSplitter::NoHyphenation
    } else if t == "H" {
        WordSplitter::HyphenSplitter
    } else if t == "C1" {
        WordSplitter::Custom(custom_all)
    } else if t == "C2" {
        WordSplitter::Custom(custom_first)
    } else if t == "C3" {
        WordSplitter::Custom(custom_last)
    } else if t.starts_with('C') {
        // C or C:<wordhex>=<p>,<p>/<wordhex>=...
        SPLITS.with(|s| {
            let mut m = s.borrow_mut();
            m.clear();
            if t.len() > 2 {
                for ent in t[2..].split('/') {
                    let (w, ps) = ent.split_once('=').unwrap();
                    let pts: Vec<usize> = if ps.is_empty() {
                        vec![]
                    } else {
                        ps.split(',').map(|x| x.parse().unwrap()).collect()
                    };
                    m.insert(unhex(w), pts);
                }
            }
        });
        WordSplitter::Custom(custom_splitter)
    } else {
        panic!("bad splitter {}", t)
    }
}

// tokens: width le ii si bw algo sep split
fn parse_opts(t: &[&str]) -> Opts {
    Opts {
        width: t[0].parse::<u64>().unwrap() as usize,
        le: if t[1] == "CRLF" { LineEnding::CRLF } else { LineEnding::LF },
        ii: unhex(t[2]),
        si: unhex(t[3]),
        bw: t[4] == "1",
        algo: parse_algo(t[5]),
        sep: parse_sep(t[6]),
        split: parse_split(t[7]),
    }
}

fn mk<'a>(o: &'a Opts) -> Options<'a> {
    Options::new(o.width)
        .line_ending(o.le)
        .initial_indent(&o.ii)
        .subsequent_indent(&o.si)
        .break_words(o.bw)
        .wrap_algorithm(o.algo)
        .word_separator(o.sep)
        .word_splitter(o.split.clone())
}

fn show_lines(text: &str, lines: &[Cow<'_, str>]) -> String {
    let base = text.as_ptr() as usize;
    let mut out = format!("OK {}", lines.len());
    for l in lines {
        match l {
            Cow::Borrowed(s) => {
                let p = s.as_ptr() as usize;
                if p >= base && p + s.len() <= base + text.len() {
                    out.push_str(&format!(" B{}:{}", p - base, hex(s)));
                } else {
                    out.push_str(&format!(" X:{}", hex(s)));
                }
            }
            Cow::Owned(s) => out.push_str(&format!(" O:{}", hex(s))),
        }
    }
    out
}

fn show_words(base: &str, ws: &[Word<'_>]) -> String {
    let b = base.as_ptr() as usize;
    let mut out = format!("OK {}", ws.len());
    for w in ws {
        let off = (w.word.as_ptr() as usize).wrapping_sub(b);
        let off = if off <= base.len() { off as i64 } else { -1 };
        out.push_str(&format!(
            " {}:{}:{}:{}:{}",
            off,
            hex(w.word),
            hex(w.whitespace),
            hex(w.penalty),
            w.width
        ));
    }
    out
}

// words given as word:ws:pen:width  (hex,hex,hex,dec)
fn parse_words(storage: &mut Vec<(String, String, String, usize)>, t: &str) {
    if t == "-" {
        return;
    }
    for e in t.split(';') {
        let p: Vec<&str> = e.split(':').collect();
        storage.push((unhex(p[0]), unhex(p[1]), unhex(p[2]), p[3].parse().unwrap()));
    }
}

#[derive(Debug)]
struct F(f64, f64, f64);
impl Fragment for F {
    fn width(&self) -> f64 {
        self.0
    }
    fn whitespace_width(&self) -> f64 {
        self.1
    }
    fn penalty_width(&self) -> f64 {
        self.2
    }
}

fn f64_of(t: &str) -> f64 {
    // either decimal or x<bits hex>
    if let Some(h) = t.strip_prefix('x') {
        f64::from_bits(u64::from_str_radix(h, 16).unwrap())
    } else {
        t.parse().unwrap()
    }
}

fn parse_frags(t: &str) -> Vec<F> {
    if t == "-" {
        return vec![];
    }
    t.split(';')
        .map(|e| {
            let p: Vec<&str> = e.split(':').collect();
            F(f64_of(p[0]), f64_of(p[1]), f64_of(p[2]))
        })
        .collect()
}

fn parse_f64s(t: &str) -> Vec<f64> {
    if t == "-" {
        return vec![];
    }
    t.split(',').map(f64_of).collect()
}

fn show_cuts<T>(base: &[T], lines: &[&[T]]) -> String {
    let b = base.as_ptr() as usize;
    let sz = std::mem::size_of::<T>().max(1);
    let mut out = format!("OK {}", lines.len());
    for l in lines {
        let a = ((l.as_ptr() as usize).wrapping_sub(b)) / sz;
        let inside = (l.as_ptr() as usize) >= b && a <= base.len();
        if inside || l.is_empty() {
            out.push_str(&format!(" {}:{}", if inside { a as i64 } else { -1 }, l.len()));
        } else {
            out.push_str(&format!(" -1:{}", l.len()));
        }
    }
    out
}

fn ranges<Fn_: Fn(char) -> i64>(f: Fn_) -> String {
    // run-length encode f over all scalar values
    let mut out = String::new();
    let mut start = 0u32;
    let mut cur: Option<i64> = None;
    for cp in 0u32..=0x10FFFF {
        let v = match char::from_u32(cp) {
            Some(c) => f(c),
            None => -9,
        };
        match cur {
            None => {
                cur = Some(v);
                start = cp;
            }
            Some(c) if c == v => {}
            Some(c) => {
                out.push_str(&format!(" {:x}-{:x}={}", start, cp - 1, c));
                cur = Some(v);
                start = cp;
            }
        }
    }
    out.push_str(&format!(" {:x}-{:x}={}", start, 0x10FFFF, cur.unwrap()));
    out
}

fn handle(line: &str) -> String {
    let t: Vec<&str> = line.split_whitespace().collect();
    if t.is_empty() {
        return "ERR empty".into();
    }
    match t[0] {
        "ping" => "OK pong".into(),
        "features" => {
            if cfg!(feature = "full") {
                "OK full".into()
            } else {
                "OK nodefault".into()
            }
        }
        "dw" => format!("OK {}", textwrap::core::display_width(&unhex(t[1]))),
        "wrap" => {
            let text = unhex(t[1]);
            let o = parse_opts(&t[2..]);
            let lines = textwrap::wrap(&text, mk(&o));
            show_lines(&text, &lines)
        }
        "fill" => {
            let text = unhex(t[1]);
            let o = parse_opts(&t[2..]);
            format!("OK {}", hex(&textwrap::fill(&text, mk(&o))))
        }
        "fill_slow" => {
            let text = unhex(t[1]);
            let o = parse_opts(&t[2..]);
            format!("OK {}", hex(&textwrap::fuzzing::fill_slow_path(&text, mk(&o))))
        }
        // wsl / wsl_slow: <line> <nprev> opts  -- nprev dummy lines already in the vector
        "wsl" | "wsl_slow" => {
            let text = unhex(t[1]);
            let nprev: usize = t[2].parse().unwrap();
            let o = parse_opts(&t[3..]);
            let opts = mk(&o);
            let mut lines: Vec<Cow<'_, str>> = Vec::new();
            for _ in 0..nprev {
                lines.push(Cow::Borrowed("#"));
            }
            if t[0] == "wsl" {
                textwrap::fuzzing::wrap_single_line(&text, &opts, &mut lines);
            } else {
                textwrap::fuzzing::wrap_single_line_slow_path(&text, &opts, &mut lines);
            }
            show_lines(&text, &lines[nprev..])
        }
        "fill_inplace" => {
            let mut text = unhex(t[1]);
            let w = t[2].parse::<u64>().unwrap() as usize;
            textwrap::fill_inplace(&mut text, w);
            format!("OK {}", hex(&text))
        }
        "unfill" => {
            let text = unhex(t[1]);
            let (s, o) = textwrap::unfill(&text);
            format!(
                "OK {} {} {} {} {}",
                hex(&s),
                o.width,
                if o.line_ending == LineEnding::CRLF { "CRLF" } else { "LF" },
                hex(o.initial_indent),
                hex(o.subsequent_indent)
            )
        }
        "refill" => {
            let text = unhex(t[1]);
            let o = parse_opts(&t[2..]);
            format!("OK {}", hex(&textwrap::refill(&text, mk(&o))))
        }
        "indent" => format!("OK {}", hex(&textwrap::indent(&unhex(t[1]), &unhex(t[2])))),
        "dedent" => format!("OK {}", hex(&textwrap::dedent(&unhex(t[1])))),
        "wrap_columns" => {
            // text columns l m r opts
            let text = unhex(t[1]);
            let columns: usize = t[2].parse().unwrap();
            let (l, m, r) = (unhex(t[3]), unhex(t[4]), unhex(t[5]));
            let o = parse_opts(&t[6..]);
            let rows = textwrap::wrap_columns(&text, columns, mk(&o), &l, &m, &r);
            let mut out = format!("OK {}", rows.len());
            for r in rows {
                out.push_str(&format!(" {}", hex(&r)));
            }
            out
        }
        "find_words" => {
            let sep = parse_sep(t[1]);
            let line = unhex(t[2]);
            let ws: Vec<Word<'_>> = sep.find_words(&line).collect();
            show_words(&line, &ws)
        }
        "split_points" => {
            let sp = parse_split(t[1]);
            let w = unhex(t[2]);
            let pts = sp.split_points(&w);
            let mut out = format!("OK {}", pts.len());
            for p in pts {
                out.push_str(&format!(" {}", p));
            }
            out
        }
        "split_words" => {
            // split_words <splitter> <words>
            let sp = parse_split(t[1]);
            let mut st = Vec::new();
            parse_words(&mut st, t[2]);
            let words: Vec<Word<'_>> = st
                .iter()
                .map(|(w, ws, p, width)| Word { word: w, whitespace: ws, penalty: p, width: *width })
                .collect();
            let out: Vec<Word<'_>> = textwrap::word_splitters::split_words(words, &sp).collect();
            show_words("", &out)
        }
        "break_words" => {
            let mut st = Vec::new();
            parse_words(&mut st, t[1]);
            let lw = t[2].parse::<u64>().unwrap() as usize;
            let words: Vec<Word<'_>> = st
                .iter()
                .map(|(w, ws, p, width)| Word { word: w, whitespace: ws, penalty: p, width: *width })
                .collect();
            let out = textwrap::core::break_words(words, lw);
            show_words("", &out)
        }
        "break_apart" => {
            let mut st = Vec::new();
            parse_words(&mut st, t[1]);
            let lw = t[2].parse::<u64>().unwrap() as usize;
            let (w, ws, p, width) = &st[0];
            let word = Word { word: w, whitespace: ws, penalty: p, width: *width };
            let out: Vec<Word<'_>> = word.break_apart(lw).collect();
            show_words(w, &out)
        }
        "first_fit" => {
            let fr = parse_frags(t[1]);
            let lw = parse_f64s(t[2]);
            let lines = textwrap::wrap_algorithms::wrap_first_fit(&fr, &lw);
            show_cuts(&fr, &lines)
        }
        #[cfg(feature = "full")]
        "optimal_fit" => {
            use textwrap::wrap_algorithms::{wrap_optimal_fit, Penalties};
            let fr = parse_frags(t[1]);
            let lw = parse_f64s(t[2]);
            let mut pen = Penalties::new();
            if t.len() > 3 && t[3] != "-" {
                let p: Vec<usize> = t[3].split(':').map(|x| x.parse::<u64>().unwrap() as usize).collect();
                pen.nline_penalty = p[0];
                pen.overflow_penalty = p[1];
                pen.short_last_line_fraction = p[2];
                pen.short_last_line_penalty = p[3];
                pen.hyphen_penalty = p[4];
            }
            match wrap_optimal_fit(&fr, &lw, &pen) {
                Ok(lines) => show_cuts(&fr, &lines),
                Err(_) => "OK ERR".into(),
            }
        }
        #[cfg(feature = "full")]
        "online_minima" => {
            // smawk::online_column_minima over an arbitrary "matrix": the k-th call of the closure returns the
            // k-th listed value (0.0 when the list is exhausted); every call is reported as i:j:len(minima)
            let size: usize = t[1].parse().unwrap();
            let vals = parse_f64s(t[2]);
            let calls = std::cell::RefCell::new(Vec::<(usize, usize, usize, usize)>::new());
            let res = smawk::online_column_minima(0.0f64, size, |m: &[(usize, f64)], i, j| {
                let mut c = calls.borrow_mut();
                let v = vals.get(c.len()).copied().unwrap_or(0.0);
                // 4th field: does every entry of the minima slice name a row below its column (row 0 for column 0)?
                let ok = m.iter().enumerate().all(|(k, e)| if k == 0 { e.0 == 0 } else { e.0 < k });
                c.push((i, j, m.len(), ok as usize));
                v
            });
            let rows: Vec<String> = res.iter().map(|(r, _)| r.to_string()).collect();
            let cs: Vec<String> = calls.borrow().iter().map(|(i, j, l, k)| format!("{}:{}:{}:{}", i, j, l, k)).collect();
            format!("OK {} {}", if rows.is_empty() { "-".to_string() } else { rows.join(",") },
                    if cs.is_empty() { "-".to_string() } else { cs.join(",") })
        }
        #[cfg(feature = "full")]
        "linebreaks" => {
            let s = unhex(t[1]);
            let mut out = String::from("OK");
            for (i, k) in unicode_linebreak::linebreaks(&s) {
                out.push_str(&format!(
                    " {}:{}",
                    i,
                    if k == unicode_linebreak::BreakOpportunity::Mandatory { "M" } else { "A" }
                ));
            }
            out
        }
        "table" => match t[1] {
            "whitespace" => format!("OK{}", ranges(|c| c.is_whitespace() as i64)),
            "alphanumeric" => format!("OK{}", ranges(|c| c.is_alphanumeric() as i64)),
            #[cfg(feature = "full")]
            "width" => format!(
                "OK{}",
                ranges(|c| match unicode_width::UnicodeWidthChar::width(c) {
                    None => -1,
                    Some(w) => w as i64,
                })
            ),
            // the crate's own notion of a char's width, observed through its public API
            "dw1" => format!(
                "OK{}",
                ranges(|c| if c == '\x1b' { -2 } else { textwrap::core::display_width(c.encode_utf8(&mut [0u8; 4])) as i64 })
            ),
            _ => "ERR table".into(),
        },
        _ => format!("ERR unknown command {}", t[0]),
    }
}

fn main() {
    panic::set_hook(Box::new(|_| {}));
    let stdin = std::io::stdin();
    let stdout = std::io::stdout();
    for line in stdin.lock().lines() {
        let line = line.unwrap();
        let res = panic::catch_unwind(|| handle(&line));
        let resp = match res {
            Ok(r) => r,
            Err(e) => {
                let msg = if let Some(s) = e.downcast_ref::<&str>() {
                    s.to_string()
                } else if let Some(s) = e.downcast_ref::<String>() {
                    s.clone()
                } else {
                    "?".to_string()
                };
                format!("PANIC {}", msg.replace(['\n', '\r'], " "))
            }
        };
        let mut o = stdout.lock();
        writeln!(o, "{}", resp).unwrap();
        o.flush().unwrap();
    }
}
